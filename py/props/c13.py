"""C13 -- hard-link structure is preserved and link coordination always terminates.
Theorems: coq/Properties/C13.v over Model/Hardlink.v (small-step interleaving machine).
Tie: end-to-end runs of the real binary with -H on generated link-group partitions and worker counts
(termination decided by a wall-clock bound, inode classes compared with the source), a natural fault
(the first copy of a group fails), and the model's exhaustive exploration statistics."""
import os, subprocess, json, time, shutil, subprocess
import vlib, world, engine_world as ew
from common import proof_phase, TRUSTED_COMMON

PID = "C13"


def inode_classes(snap):
    groups = {}
    for rel, e in snap.items():
        if e["kind"] == "f":
            groups.setdefault(e["ino"], []).append(rel)
    return sorted(sorted(v) for v in groups.values())


def gen(r, i):
    spec = []
    ngroups = r.randrange(1, 4)
    for g in range(ngroups):
        size = r.choice([10, 5000, 150000, 3_000_000 if i % 5 == 0 else 100])
        k = r.randrange(2, 6)
        first = "g%d/m0.dat" % g if r.random() < 0.5 else "m%d_0.dat" % g
        spec.append({"p": first, "k": "f", "data": ("rand", 100 * i + g, size), "mt": 100 + g})
        for j in range(1, k):
            p = r.choice(["g%d/m%d.dat" % (g, j), "other/l%d_%d" % (g, j), "l%d_%d.lnk" % (g, j)])
            spec.append({"p": p, "k": "h", "to": first})
    for j in range(r.randrange(0, 3)):
        spec.append({"p": "plain%d.txt" % j, "k": "f", "data": ("rand", 7000, 50), "mt": 50})      # equal bytes: they may become links of each other later
    return spec


FAULT_SHIM = os.path.join(vlib.CACHE, "faultshim.so")
FAULT_SHIM_SRC = os.path.join(vlib.VERIF, "shim", "faultshim.c")


def build_fault_shim():
    os.makedirs(vlib.CACHE, exist_ok=True)
    if os.path.exists(FAULT_SHIM) and os.path.getmtime(FAULT_SHIM) >= os.path.getmtime(FAULT_SHIM_SRC):
        return True
    p = subprocess.run(["gcc", "-O1", "-shared", "-fPIC", "-o", FAULT_SHIM, FAULT_SHIM_SRC, "-ldl"], stdout=subprocess.PIPE, stderr=subprocess.STDOUT)
    return p.returncode == 0


def run(tier, seed):
    res = vlib.Result(PID, tier, seed)
    pr = proof_phase(res, PID)
    oki, outi, _ = vlib.build_impl()
    if not oki:
        res.violation("build", "implementation does not build:\n" + outi[-3000:], no_input=True)
        return res.finish()
    known = {f["class"]: f for f in vlib.load_known()["findings"] if f["property"] == PID}
    r = vlib.rng_for(seed, PID)
    n = 30 if tier == "quick" else 300
    viol, hits, nontriv, samples = [], {}, set(), []
    with vlib.Scratch() as sc:
        for i in range(n):
            if sum(1 for v in viol if "did not terminate" in v.get("why", "")) >= 3:
                break
            spec = gen(r, i)
            base = os.path.join(sc.dir, "w%d" % i)
            src, dst = base + "/src", base + "/dst"
            world.mk_tree(src, spec)
            os.makedirs(dst, exist_ok=True)
            j = r.choice([1, 2, 4, 8, 16])
            sc.env["SY_VERIF_DELTA_THRESHOLD"] = str(ew.BIG)
            want = inode_classes(world.snapshot(src))
            if i % 3 == 1:
                # one member of every group is already in the destination (copied there with cp -p, by an earlier run without -H, ...)
                for e in spec:
                    if e["k"] == "h" and r.random() < 0.6:
                        os.makedirs(os.path.dirname(os.path.join(dst, e["p"])), exist_ok=True)
                        shutil.copy2(os.path.join(src, e["p"]), os.path.join(dst, e["p"]))
                        st_ = os.stat(os.path.join(src, e["p"]))
                        os.utime(os.path.join(dst, e["p"]), ns=(st_.st_atime_ns, st_.st_mtime_ns))
                        break
            for phase in ("create", "rerun", "update", "grow", "unlink"):
                if phase == "grow":
                    # the link structure of the source changes without any content changing: every group gets a further name, and two
                    # plain files with the same bytes become hard links of each other
                    for gi, e in enumerate([e for e in spec if e["k"] == "f" and not e["p"].startswith("plain")]):
                        os.link(os.path.join(src, e["p"]), os.path.join(src, "late_name_%d" % gi))
                    pl = [e for e in spec if e["k"] == "f" and e["p"].startswith("plain")]
                    if len(pl) >= 2:
                        a_, b_ = os.path.join(src, pl[0]["p"]), os.path.join(src, pl[1]["p"])
                        os.remove(b_); os.link(a_, b_)
                    want = inode_classes(world.snapshot(src))
                if phase == "unlink":
                    # a group falls apart in the source: one member becomes a file of its own (other bytes), the first member changes too.
                    # The destination members must stop sharing an inode with it, and each must hold its own source's bytes
                    members = [e for e in spec if e["k"] == "h"]
                    if not members:
                        break
                    m = members[0]
                    mp, fp = os.path.join(src, m["p"]), os.path.join(src, m["to"])
                    os.remove(mp)
                    with open(mp, "wb") as f:
                        f.write(b"a file of its own now " + bytes([i % 251]) * (os.path.getsize(fp) % 5000 + 1))
                    os.utime(mp, ns=((world.T0 + 9500) * 10**9,) * 2)
                    with open(fp, "r+b") as f:
                        f.seek(0); f.write(b"FIRST!!!!")
                    os.utime(fp, ns=((world.T0 + 9600) * 10**9,) * 2)
                    want = inode_classes(world.snapshot(src))
                snap = gsnap = None
                if phase == "update":
                    # a snapshot of one plain destination file made with cp -al (a second name of its inode): the update of the file
                    # must leave the snapshot's bytes alone
                    plains = [e for e in spec if e["k"] == "f" and e["p"].startswith("plain") and os.path.isfile(os.path.join(dst, e["p"]))]
                    if plains:
                        pe = plains[0]
                        snap = (os.path.join(dst, pe["p"] + ".snap"), world.sha(os.path.join(dst, pe["p"])))
                        os.link(os.path.join(dst, pe["p"]), snap[0])
                        with open(os.path.join(src, pe["p"]), "ab") as f:
                            f.write(b"appended after the snapshot")
                        os.utime(os.path.join(src, pe["p"]), ns=((world.T0 + 9100) * 10**9,) * 2)
                    # ... and so must the update of a whole group under -H: a snapshot of the first group's first name
                    firsts = [e for e in spec if e["k"] == "f" and not e["p"].startswith("plain") and os.path.isfile(os.path.join(dst, e["p"]))]
                    if firsts:
                        gsnap = (os.path.join(dst, firsts[0]["p"] + ".gsnap"), world.sha(os.path.join(dst, firsts[0]["p"])))
                        os.link(os.path.join(dst, firsts[0]["p"]), gsnap[0])
                    # rewrite one member of every group through its first path (all links see it)
                    for e in spec:
                        if e["k"] == "f" and not e["p"].startswith("plain"):
                            with open(os.path.join(src, e["p"]), "r+b") as f:
                                f.seek(0); f.write(b"UPDATED!!")
                            os.utime(os.path.join(src, e["p"]), ns=((world.T0 + 9000) * 10**9,) * 2)
                rr = world.run_sy([src, dst, "-H", "-j%d" % j, "-q"], sc, timeout=25)
                if rr["timeout"]:
                    hung_total = sum(1 for v in viol if "did not terminate" in v.get("why", ""))
                    if hung_total >= 3:
                        break
                    viol.append({"world": i, "phase": phase, "j": j, "why": "sy -H did not terminate within 25 s", "klass": None, "spec": [(e["p"], e["k"], e.get("to")) for e in spec]})
                    break
                if gsnap is not None:
                    if world.sha(gsnap[0]) != gsnap[1]:
                        viol.append({"world": i, "phase": phase, "j": j, "why": "a second name (cp -al snapshot) of a destination name of a hard-link GROUP changed when the group was updated under -H", "klass": None})
                    os.remove(gsnap[0])
                if snap is not None:
                    if world.sha(snap[0]) != snap[1]:
                        viol.append({"world": i, "phase": phase, "j": j, "why": "a second name (cp -al snapshot) of an updated destination file changed with it: the file was rewritten in place", "klass": None})
                    os.remove(snap[0])
                s_snap, d_snap = world.snapshot(src), world.snapshot(dst)
                got = inode_classes(d_snap)
                bad_content = [rel for rel, e in s_snap.items() if e["kind"] == "f" and (d_snap.get(rel) or {}).get("sha") != e["sha"]]
                if rr["rc"] != 0 or bad_content:
                    viol.append({"world": i, "phase": phase, "j": j, "why": "rc=%s, content differs for %r" % (rr["rc"], bad_content[:3]), "klass": None})
                    break
                if got != want:
                    big_group = any(e["k"] == "f" and isinstance(e.get("data"), tuple) and e["data"][2] >= ew.BIG for e in spec)
                    f = {"world": i, "phase": phase, "j": j, "why": "destination inode classes %r differ from the source's %r" % (got[:4], want[:4]),
                         "klass": "update-breaks-links" if (phase == "update" and big_group) else None}
                    if f["klass"] in known:
                        hits.setdefault(known[f["klass"]]["id"], []).append(f)
                    else:
                        viol.append(f)
                    break
                nontriv.add((phase, j, tuple(len(g) for g in want)))
            if len(samples) < 2:
                samples.append({"spec": [(e["p"], e["k"], e.get("to")) for e in spec], "j": j})
        # natural fault: the first copy of a group cannot be created (its parent is a regular file in the destination)
        nf = 8 if tier == "quick" else 60
        hangs = 0
        for i in range(nf):
            base = os.path.join(sc.dir, "f%d" % i)
            src, dst = base + "/src", base + "/dst"
            names = ["blocked/x.dat", "blocked/y.dat", "blocked2/z.dat"] if i % 2 == 0 else ["blocked/x.dat", "ok/y.dat", "ok/z.dat", "ok/w.dat"]
            r.shuffle(names)
            spec = [{"p": names[0], "k": "f", "data": ("rand", i, 2000), "mt": 10}] + [{"p": p, "k": "h", "to": names[0]} for p in names[1:]]
            world.mk_tree(src, spec)
            world.mk_tree(dst, [{"p": "blocked", "k": "f", "data": b"i am a file", "mt": 5}, {"p": "blocked2", "k": "f", "data": b"me too", "mt": 5}])
            rr = world.run_sy([src, dst, "-H", "-j%d" % r.choice([1, 2, 4, 8]), "-q"], sc, timeout=8)
            if rr["timeout"]:
                hangs += 1
                f = {"world": "fault%d" % i, "why": "first copy of the link group failed and sy -H hung (killed after 8 s)", "klass": "owner-failure-hang"}
                if f["klass"] in known:
                    hits.setdefault(known[f["klass"]]["id"], []).append(f)
                else:
                    viol.append(f)
            else:
                d_snap = world.snapshot(dst)
                ok_members = [p for p in names if p.startswith("ok/")]
                inos = set(d_snap[p]["ino"] for p in ok_members if p in d_snap)
                s_snap = world.snapshot(src)
                missing = [p for p in ok_members if p not in d_snap or d_snap[p].get("sha") != s_snap[p]["sha"]]
                if len(inos) > 1:
                    viol.append({"world": "fault%d" % i, "why": "surviving members of the group do not share an inode", "klass": None})
                if missing:
                    viol.append({"world": "fault%d" % i, "why": "members that could be created are missing or wrong after the first copy of their group failed: %r" % missing, "klass": None})
                if rr["rc"] == 0:
                    viol.append({"world": "fault%d" % i, "why": "exit status 0 although members of the group could not be created", "klass": None})
        # the first copy fails LATE (fault shim: its open takes 150 ms and ends in EIO) while waiters sit between their read of
        # the map and their registration (schedule-point hook, 400 ms) and the next owner's copy is slow (700 ms): a waiter that
        # registered with the notice of the failed copy must not sleep on it
        ng = 3 if tier == "quick" else 12
        gap_hangs = 0
        owner_failed = 0
        shim_ok = build_fault_shim()
        if not shim_ok:
            viol.append({"world": "gap", "why": "fault shim did not build", "klass": None})
        for i in range(ng if shim_ok else 0):
            base = os.path.join(sc.dir, "g%d" % i)
            src, dst = base + "/src", base + "/dst"
            k = r.choice([3, 4, 6])
            names = ["a_first/x.dat"] + ["ok/m%02d.dat" % t for t in range(k)]
            spec = [{"p": names[0], "k": "f", "data": ("rand", i, 3000), "mt": 10}] + [{"p": p, "k": "h", "to": names[0]} for p in names[1:]]
            world.mk_tree(src, spec)
            os.makedirs(dst)
            env_old = dict(sc.env)
            sc.env.update({"SY_VERIF_HL_GAP_MS": "400", "LD_PRELOAD": FAULT_SHIM, "SY_FAULT_PATH": "/dst/a_first/x.dat", "SY_FAULT_DELAY_MS": "150",
                           "SY_SLOW_PATH": "/dst/ok/", "SY_SLOW_DELAY_MS": "700"})
            rr = world.run_sy([src, dst, "-H", "-j%d" % r.choice([2, 3, 3, 4]), "-q"], sc, timeout=12)
            sc.env.clear(); sc.env.update(env_old)
            if rr["timeout"]:
                gap_hangs += 1
                viol.append({"world": "gap%d" % i, "members": len(names), "why": "the first copy of the link group failed late while waiters sat between reading the map and registering; "
                             "sy -H hung (killed after 12 s)", "klass": None})
            else:
                d_snap, s_snap = world.snapshot(dst), world.snapshot(src)
                # the injected fault hits the OPEN of a_first/x.dat: when that member happens to be the first to claim, its copy fails
                # (exit status non-zero, every other member must be there); when another member claimed first, x.dat is hard-linked
                # (no open) and the run succeeds with the whole group in place
                okm = names[1:] if rr["rc"] != 0 else names
                if len(set(d_snap[p]["ino"] for p in okm if p in d_snap)) > 1 or any(p not in d_snap or d_snap[p].get("sha") != s_snap[p]["sha"] for p in okm):
                    viol.append({"world": "gap%d" % i, "why": "after the late failure of the first copy: members missing or not sharing an inode (rc=%s)" % rr["rc"], "klass": None})
                owner_failed += 1 if rr["rc"] != 0 else 0
            shutil.rmtree(base, ignore_errors=True)
        # destination files at or above the size from which sy rebuilds through a working file on its own (10 MB, no hook here), with a
        # second name: (a) a member of a group that leaves the group and shrinks / grows / keeps its size, (b) a cp -al snapshot of a
        # plain file.  The other name must keep its bytes; the classes must follow the source.
        nb = 3 if tier == "quick" else 12
        big_runs = 0
        env_old = dict(sc.env)
        sc.env.pop("SY_VERIF_DELTA_THRESHOLD", None)
        for i in range(nb):
            base = os.path.join(sc.dir, "b%d" % i)
            src, dst, snapd = base + "/src", base + "/dst", base + "/snap"
            big = 11_000_000 + 4096 * r.randrange(0, 200)
            newsize = [1_000_000 + r.randrange(0, 5000), big, big + 3_000_000][i % 3]
            world.mk_tree(src, [{"p": "a.bin", "k": "f", "data": ("rand", 900 + i, big), "mt": 10}, {"p": "b.bin", "k": "h", "to": "a.bin"},
                                {"p": "c.bin", "k": "f", "data": ("rand", 950 + i, big), "mt": 11}])
            os.makedirs(dst); os.makedirs(snapd)
            hl = ["-H"] if i % 2 == 0 else []
            rr = world.run_sy([src, dst, "-q"] + hl, sc, timeout=60)
            os.link(dst + "/c.bin", snapd + "/c.bin")
            keep = {"snap": world.sha(snapd + "/c.bin"), "a": world.sha(src + "/a.bin")}
            os.remove(src + "/b.bin")
            for nm, sd in (("b.bin", 1), ("c.bin", 2)):
                with open(os.path.join(src, nm), "wb") as f:
                    f.write(world.pbytes(7000 + 10 * i + sd, newsize))
                os.utime(os.path.join(src, nm), ns=((world.T0 + 9000 + sd) * 10**9,) * 2)
            rr2 = world.run_sy([src, dst, "-q"] + hl, sc, timeout=60)
            big_runs += 1
            s_snap, d_snap = world.snapshot(src), world.snapshot(dst)
            why = []
            if rr["rc"] != 0 or rr2["rc"] != 0:
                why.append("rc=%s/%s" % (rr["rc"], rr2["rc"]))
            if world.sha(snapd + "/c.bin") != keep["snap"]:
                why.append("the cp -al snapshot of c.bin (%d bytes) changed when c.bin was updated to %d bytes" % (big, newsize))
            bad = [p_ for p_, e in s_snap.items() if e["kind"] == "f" and (d_snap.get(p_) or {}).get("sha") != e["sha"]]
            if bad:
                why.append("content differs from the source for %r (b.bin left the group and was rewritten; a.bin was never touched)" % bad)
            if hl and inode_classes({k: v for k, v in d_snap.items() if k != "c.bin"}) != inode_classes({k: v for k, v in s_snap.items() if k != "c.bin"}):
                why.append("destination inode classes differ from the source's after b.bin left its group")
            if why:
                viol.append({"world": "big%d" % i, "sizes": [big, newsize], "flags": hl, "why": "; ".join(why), "klass": None})
            shutil.rmtree(base, ignore_errors=True)
        sc.env.clear(); sc.env.update(env_old)
        import biglinks
        for vi in (range(3) if tier == "quick" else range(10)):
            bname, bf = biglinks.run_variant(sc, seed + 17 * vi, vi + 2)
            for x in bf:
                viol.append({"world": "biglinks-%d" % vi, "variant": bname, "why": x, "klass": None})
        # (88672a3) a group of 2..4 names whose old and new version agree in size and time stamp (--checksum / --ignore-times); the update
        # of ONE name fails (its working-file name is taken by a directory): every other name must hold the source's bytes afterwards, the
        # failure must be visible, and the failed name keeps what it had.  (3b1f2c2) a pass that cannot restore a link is an error.
        stale_runs = relink_fail_runs = 0
        for i in range(4 if tier == "quick" else 16):
            base = os.path.join(sc.dir, "sm%d" % i)
            src, dst = base + "/src", base + "/dst"
            os.makedirs(src); os.makedirs(dst)
            k = 2 + i % 3
            names = ["m%d.dat" % q for q in range(k)]
            size = [6, 5000, 120000][i % 3]
            new, old = world.pbytes(4000 + i, size), world.pbytes(4100 + i, size)
            victim = names[(i // 2) % k]                      # first, middle or last of the group
            with open(os.path.join(src, names[0]), "wb") as f:
                f.write(new)
            for nm in names[1:]:
                os.link(os.path.join(src, names[0]), os.path.join(src, nm))
            for nm in names:
                with open(os.path.join(dst, nm), "wb") as f:
                    f.write(old)
            os.link(os.path.join(dst, victim), os.path.join(dst, "zz_second_name"))      # the victim is replaced through a working file ...
            os.makedirs(os.path.join(dst, victim + ".sy.tmp", "blocker"))               # ... whose name is taken
            for root in (src, dst):
                for nm in names:
                    os.utime(os.path.join(root, nm), ns=((world.T0 + 5000) * 10**9,) * 2)
            mode = ["--checksum", "--ignore-times"][i % 2]
            rr = world.run_sy([src, dst, "-H", mode, "-q", "-j%d" % [1, 4][i % 2]], sc, timeout=60)
            stale_runs += 1
            why = []
            if rr.get("timeout"):
                why.append("did not terminate")
            if rr["rc"] == 0:
                why.append("exit status 0 although the update of %s failed" % victim)
            for nm in names:
                if nm != victim and world.sha(os.path.join(dst, nm)) != world.sha(os.path.join(src, nm)):
                    why.append("%s, whose update did not fail, does not hold the source's bytes (moved onto the stale %s?)" % (nm, victim))
            if why:
                viol.append({"world": "stale-member%d" % i, "names": names, "failing": victim, "mode": mode, "why": "; ".join(why), "klass": None})
            shutil.rmtree(base, ignore_errors=True)
        # (d4a18a3) --links follow: two followed links (or one, next to a cp -al snapshot) over destination names that share an inode
        for i in range(2 if tier == "quick" else 6):
            base = os.path.join(sc.dir, "fl%d" % i)
            src, dst = base + "/src", base + "/dst"
            os.makedirs(src); os.makedirs(dst)
            for q, nm in enumerate(("ra", "rb")):
                with open(os.path.join(src, nm), "wb") as f:
                    f.write(world.pbytes(4700 + 2 * i + q, [30, 90000][i % 2] + q))
                os.symlink(nm, os.path.join(src, "l" + nm[1]))
            with open(dst + "/la", "wb") as f:
                f.write(b"old copy")
            os.utime(dst + "/la", ns=((world.T0 + 100) * 10**9,) * 2)
            other = "lb" if i % 2 == 0 else "snapshot_of_la"
            os.link(dst + "/la", dst + "/" + other)
            snap_sha = world.sha(dst + "/" + other)
            rr = world.run_sy([src, dst, "--links", "follow", "-q", "-j%d" % [1, 4][i % 2]], sc, timeout=60)
            why = []
            for lnk, ref in (("la", "ra"), ("lb", "rb")):
                if not os.path.isfile(dst + "/" + lnk) or world.sha(dst + "/" + lnk) != world.sha(src + "/" + ref):
                    why.append("the copy of the followed link %s does not hold its referent's bytes" % lnk)
            if other != "lb" and world.sha(dst + "/" + other) != snap_sha:
                why.append("the other name of la (a snapshot) changed with it")
            if rr["rc"] != 0:
                why.append("rc=%s" % rr["rc"])
            if why:
                viol.append({"world": "follow-over-linked-pair%d" % i, "why": "; ".join(why), "klass": None})
            shutil.rmtree(base, ignore_errors=True)
        # (round 5, side notes of the sub-agent producing seed C13-5) names that stop being hard links of each other in the source WITHOUT a
        # change of content or time stamp: a name leaves its group (cp -p c t; mv t c), a group splits in two -- the destination follows
        for i in range(2 if tier == "quick" else 6):
            base = os.path.join(sc.dir, "sep%d" % i)
            src, dst = base + "/src", base + "/dst"
            os.makedirs(src); os.makedirs(dst)
            names = ["a", "b", "c", "d"]
            with open(src + "/a", "wb") as f:
                f.write(world.pbytes(4900 + i, [20, 50000][i % 2]))
            for nm in names[1:]:
                os.link(src + "/a", src + "/" + nm)
            r1 = world.run_sy([src, dst, "-H", "-q"], sc, timeout=60)
            leavers = ["c"] if i % 2 == 0 else ["c", "d"]
            subprocess.run(["cp", "-p", src + "/" + leavers[0], src + "/tmpname"], check=True)
            os.rename(src + "/tmpname", src + "/" + leavers[0])
            for nm in leavers[1:]:
                os.remove(src + "/" + nm); os.link(src + "/" + leavers[0], src + "/" + nm)
            r2 = world.run_sy([src, dst, "-H", "-q", "-j%d" % [1, 4][i % 2]], sc, timeout=60)
            s_cls = inode_classes(world.snapshot(src)); d_cls = inode_classes(world.snapshot(dst))
            bad = [nm for nm in names if world.sha(dst + "/" + nm) != world.sha(src + "/" + nm)]
            if r1["rc"] != 0 or r2["rc"] != 0 or s_cls != d_cls or bad:
                viol.append({"world": "leaves-group-without-change%d" % i, "why": "%r left the group {a,b,c,d} in the source without a change of content or time stamp: after -H exit %s/%s, source classes %r, destination classes %r, wrong content %r"
                             % (leavers, r1["rc"], r2["rc"], s_cls, d_cls, bad), "klass": None})
            shutil.rmtree(base, ignore_errors=True)
        # (round 4, S1 of seed C13-4's notes) every name is in the destination with the right bytes on its own inode; one carries a
        # whole-second time stamp (tar, an older tool): up to date for the planner -- and still a member of its group
        for i in range(2 if tier == "quick" else 8):
            base = os.path.join(sc.dir, "ws%d" % i)
            src, dst = base + "/src", base + "/dst"
            os.makedirs(src); os.makedirs(dst)
            data = world.pbytes(4500 + i, [40, 70000][i % 2])
            stamp = (world.T0 + 7000) * 10**9 + [700_000_000, 999_999_999, 1][i % 3]
            names = ["g%d" % q for q in range(2 + i % 2)]
            with open(os.path.join(src, names[0]), "wb") as f:
                f.write(data)
            os.utime(os.path.join(src, names[0]), ns=(stamp, stamp))
            for nm in names[1:]:
                os.link(os.path.join(src, names[0]), os.path.join(src, nm))
            for q, nm in enumerate(names):
                with open(os.path.join(dst, nm), "wb") as f:
                    f.write(data)
                st_ = stamp if q != len(names) - 1 else (stamp // 10**9) * 10**9 + (10**9 if i % 4 == 3 else 0)      # truncated (or rounded up)
                os.utime(os.path.join(dst, nm), ns=(st_, st_))
            rr = world.run_sy([src, dst, "-H", "-q", "-j%d" % [1, 4][i % 2]], sc, timeout=60)
            inos = {os.stat(os.path.join(dst, nm)).st_ino for nm in names}
            bad = [nm for nm in names if world.sha(os.path.join(dst, nm)) != world.sha(os.path.join(src, nm))]
            if rr["rc"] != 0 or len(inos) != 1 or bad:
                viol.append({"world": "whole-second-stamp%d" % i, "why": "a group of %d names, all in the destination with the right bytes, one with a whole-second time stamp: after -H exit %s, %d inodes, wrong content %r" % (len(names), rr["rc"], len(inos), bad), "klass": None})
            shutil.rmtree(base, ignore_errors=True)
        for i in range(2 if tier == "quick" else 6):
            base = os.path.join(sc.dir, "rf%d" % i)
            src, dst = base + "/src", base + "/dst"
            for d_ in (src + "/p", src + "/q", dst + "/p", dst + "/q"):
                os.makedirs(d_)
            with open(src + "/p/a", "wb") as f:
                f.write(world.pbytes(4300 + i, 700))
            os.link(src + "/p/a", src + "/q/b")
            os.utime(src + "/p/a", ns=((world.T0 + 6000) * 10**9,) * 2)
            subprocess.run(["cp", "-p", src + "/p/a", dst + "/p/a"], check=True); subprocess.run(["cp", "-p", src + "/p/a", dst + "/q/b"], check=True)
            frozen = [dst + "/p", dst + "/q"] if i % 2 == 0 else [dst + "/q"]
            if subprocess.run(["chattr", "+i"] + frozen, stderr=subprocess.DEVNULL).returncode != 0:
                shutil.rmtree(base, ignore_errors=True)
                continue                          # no immutable flag on this file system: the world cannot be built
            try:
                rr = world.run_sy([src, dst, "-H", "-q"], sc, timeout=60)
            finally:
                subprocess.run(["chattr", "-i"] + frozen)
            relink_fail_runs += 1
            one = os.stat(dst + "/p/a").st_ino == os.stat(dst + "/q/b").st_ino
            if not one and rr["rc"] == 0:
                viol.append({"world": "relink-fails%d" % i, "why": "the names of a multiply-linked source file are on two inodes after -H (the directory of a name is immutable: link/rename fail) and the exit status is 0", "klass": None})
            shutil.rmtree(base, ignore_errors=True)
    # model-level exploration statistics (kernel-evaluated), recorded as support
    stats = vlib.coq_eval_list("From Coq Require Import List. Import ListNotations.\nFrom SyModel Require Import Hardlink.",
                               "List.map (fun n => length (fst (explore 400000 false true true [] [init n]))) [1;2;3]", tag="c13")
    res.cov["evaluations"] = n * 3 + nf
    res.cov["distinct_nontrivial"] = len(nontriv)
    res.cov["model_reachable_states_n1_to_3_with_faults_and_gap"] = stats
    res.cov["fault_runs"] = nf
    res.cov["fault_runs_hung"] = hangs
    res.cov["late_failure_gap_runs"] = ng
    res.cov["big_destination_second_name_runs"] = big_runs
    res.cov["group_member_whose_update_fails_runs"] = stale_runs
    res.cov["relink_pass_fails_runs"] = relink_fail_runs
    res.cov["late_failure_gap_runs_hung"] = gap_hangs
    res.cov["late_failure_gap_runs_where_the_failing_member_owned"] = owner_failed
    res.cov["known_finding_hits"] = {k: len(v) for k, v in hits.items()}
    res.cov["rule"] = ("source trees with 1-3 hard-link groups of 2-5 members (sizes 10 B .. 3 MB, members in different directories) plus plain files, worker counts 1/2/4/8/16; "
                       "each world: create, re-run, update through one member; inode classes and contents of the destination compared with the source; plus a natural fault "
                       "(first copy's parent is a regular file); distinct = distinct (phase, -j, group sizes)")
    res.cov["samples"] = samples
    res.cov["trusted_base"] = TRUSTED_COMMON + ["tokio Notify::notify_waiters wakes exactly the Notified futures created before the call; fair scheduling of spawned tasks (hypotheses of the model)",
                                                 "the interleaving model is compared with the implementation only end to end (no schedule-point hooks): C13 is partial"]
    for cls, f in known.items():
        h = hits.get(f["id"], [])
        if h:
            res.known.append("%s %s [%d cases this run]" % (f["id"], f["what"], len(h)))
        else:
            res.notes.append("listed finding %s was not reproduced by this run" % f["id"])
    viol = [v for v in viol if not (v.get("klass") in known)]
    for v in viol[:3]:
        res.violation("world", v)
    if not viol and pr["broken"]:
        res.violation("unproved", {"no_failing_input_found": True, "what_no_longer_checks": pr["broken"]}, no_input=True)
    return res.finish()


def replay(path):
    print(open(path).read()[:3000])
    return 0
