"""C14 -- compression and remote-helper wire formats are byte-transparent.
Theorems: coq/Properties/C14.v.  Tie: real `sy-remote receive-file` / `receive-sparse-file` over stdin,
sy::compress round trips and should_compress_smart vs the model's decision table, sy::sparse
detect_data_regions vs the model fed with the kernel's extent map (SEEK_DATA/SEEK_HOLE)."""
import os, json
import vlib
from common import proof_phase, TRUSTED_COMMON

PID = "C14"
MAGIC = bytes([0x28, 0xB5, 0x2F, 0xFD])


def kernel_extents(path, total):
    """alternating runs (isdata, len) as SEEK_DATA/SEEK_HOLE report them"""
    runs = []
    fd = os.open(path, os.O_RDONLY)
    try:
        pos = 0
        while pos < total:
            try:
                d = os.lseek(fd, pos, os.SEEK_DATA)
            except OSError:
                d = total
            d = min(d, total)
            if d > pos:
                runs.append((0, d - pos))
            if d >= total:
                break
            h = min(os.lseek(fd, d, os.SEEK_HOLE), total)
            runs.append((1, h - d))
            pos = h
    finally:
        os.close(fd)
    return runs


def gen(seed, tier):
    r = vlib.rng_for(seed, PID)
    q = tier == "quick"
    rf, cr, cd, dr = [], [], [], []
    payloads = [b"", b"a", MAGIC, MAGIC + b"garbage that is not a frame", b"\x00" * 5000, bytes(range(256)) * 20]
    for _ in range(60 if q else 800):
        n = r.choice([0, 1, 3, 4, 5, 100, 4096, 70000])
        kind = r.randrange(4)
        if kind == 0:
            x = bytes(r.randrange(256) for _ in range(n))
        elif kind == 1:
            x = (b"compressible text " * (n // 18 + 1))[:n]
        elif kind == 2:
            x = MAGIC + bytes(r.randrange(256) for _ in range(n))
        else:
            x = bytes([r.randrange(4)]) * n
        payloads.append(x)
    for x in payloads:
        # what sy sends: zstd-compressed through the helper (decision = zstd); raw only when the bytes cannot be mistaken
        rf.append(("z", x))
        if x[:4] != MAGIC:
            rf.append(("r", x))
        cr.append(x)
    # a valid zstd frame sent RAW to the helper (interface observation) and garbage behind the magic
    rf.append(("r", MAGIC + b"\x00garbage"))
    names = ["a.txt", "movie.MP4", "archive.tar.gz", "noext", "zip", "x.JPG", "data.bin", "日本.zst", "a.b.c", ".hidden", "file.", "a.jpeg", "b.xz"]
    for local in (0, 1):
        for mode in ("auto", "extension", "always", "never"):
            for size in (0, 1, 1048575, 1048576, 1048577, 10**9):
                for nm in names:
                    for smp in ("c", "i", "e", "n"):
                        if q and r.random() < 0.8:
                            continue
                        cd.append((local, mode, size, nm, smp))
    page = 4096
    layouts = [(0, []), (1, []), (page * 3, []), (page * 8, [(0, page)]), (page * 8, [(page * 7, page)]), (page * 8, [(page * 2, page), (page * 5, page * 2)]),
               (page * 4 + 123, [(page, 10), (page * 3 + 100, 23)]), (100, [(0, 100)]), (page * 64, [(i * page * 4, 1) for i in range(16)]), (page * 2 + 1, [(page * 2, 1)])]
    for _ in range(20 if q else 300):
        total = r.randrange(1, 40) * page + r.choice([0, 0, 1, 777])
        ext, pos = [], 0
        while pos < total and len(ext) < 12:
            gap = r.choice([0, page, page * 2, page * 5, 100])
            ln = r.choice([1, 10, page, page + 1, page * 3])
            if pos + gap + ln > total:
                break
            ext.append((pos + gap, ln))
            pos = pos + gap + ln + r.choice([0, 1, page])
        layouts.append((total, ext))
    return rf, cr, cd, layouts


def run(tier, seed):
    res = vlib.Result(PID, tier, seed)
    pr = proof_phase(res, PID)
    okm, outm = vlib.build_model()
    oki, outi, _ = vlib.build_impl()
    if not (okm and oki):
        res.violation("build", "build failed:\n" + (outi if not oki else outm)[-3000:], no_input=True)
        return res.finish()
    env = {"SY_REMOTE_BIN": os.path.join(vlib.BIN, "sy-remote")}
    hb = [os.path.join(vlib.BIN, "h_wire")]
    rf, cr, cd, layouts = gen(seed, tier)
    viol, diffs, observations = [], [], []
    # ---- receive-file pipeline
    lines = ["RF %s %s" % (m, vlib.hexs(x)) for m, x in rf]
    out = vlib.run_sharded(hb, lines, env=env)
    sn = vlib.run_model(["SN " + vlib.hexs(x) for m, x in rf if m == "r"])
    k = 0
    for (m, x), o in zip(rf, out):
        kv = dict(t.split("=", 1) for t in o.split(" ") if "=" in t)
        got = kv.get("out")
        if m == "z" or x[:4] != MAGIC:
            if kv.get("rc") != "0" or got != vlib.hexs(x) or kv.get("mtime") != "1234567":
                viol.append({"case": "RF %s" % m, "payload": x[:40].hex(), "len": len(x), "why": "helper did not write exactly the original bytes / mtime", "got": (got or "")[:80], "rc": kv.get("rc"), "mtime": kv.get("mtime")})
        else:
            observations.append({"raw_magic_payload": x[:16].hex(), "rc": kv.get("rc"), "wrote_original": got == vlib.hexs(x)})
        if m == "r":
            if sn[k] != "magic=%d" % (1 if x[:4] == MAGIC and len(x) >= 4 else 0):
                diffs.append(("sniffer", x[:8].hex(), sn[k]))
            k += 1
    # ---- codec laws (exercised, not proved)
    out = vlib.run_sharded(hb, ["CR " + vlib.hexs(x) for x in cr], env=env)
    for x, o in zip(cr, out):
        if o != "z=1 l=1 n=1":
            viol.append({"case": "CR", "payload": x[:40].hex(), "len": len(x), "why": "decompress(compress(x)) != x: " + o})
    # ---- decision table
    lines = ["CD %d %s %d %s %s" % (l, m, s, n.encode().hex(), sm) for (l, m, s, n, sm) in cd]
    out = vlib.run_sharded(hb, lines, env=env)
    exts = [dict(t.split("=") for t in o.split(" ")) for o in out]
    mo = vlib.run_model(["CD %d %s %d %s %s" % (l, m, s, e["ext"], sm) for (l, m, s, n, sm), e in zip(cd, exts)])
    for c, e, m in zip(cd, exts, mo):
        if "dec=" + e["dec"] != m:
            diffs.append(("decision", c, e["dec"], m))
        if e["dec"] == "lz4":
            viol.append({"case": "CD", "inputs": c, "why": "the sender selects LZ4, which the helper cannot recognise (it only sniffs the zstd magic)"})
    # ---- sparse: detect (vs kernel extent map through the model), pack, helper, compare bytes
    nontriv = set()
    sp_lines, sp_expect = [], []
    scratch = vlib.Scratch().__enter__()
    sparse_seen = 0
    for li, (total, ext) in enumerate(layouts):
        spath = os.path.join(scratch.dir, "sparse%d" % li)
        o = vlib.run_lines(hb, "DR %d %s %s\n" % (total, ";".join("%d:%d" % e for e in ext) or "-", spath.encode().hex()), env=env)[1][0]
        kv = dict(t.split("=", 1) for t in o.split(" "))
        path = kv["file"]
        if not os.path.exists(path):
            diffs.append(("sparse file missing", path))
            continue
        sparse_seen += 1
        data = open(path, "rb").read()
        runs = kernel_extents(path, total)
        m = vlib.run_model(["DX " + (",".join("%d:%d" % r_ for r_ in runs) or "-")], shards=1)[0]
        if kv["regs"] == "ERR":
            # all-hole (or empty) files: the code reports "unsupported" and the caller falls back to a regular transfer
            if any(isd for isd, _ in runs):
                diffs.append(("detect", total, ext, kv["regs"], m))
            continue
        if "regs=" + kv["regs"] != m:
            diffs.append(("detect", total, ext, kv["regs"], m))
        regs = [] if kv["regs"] == "-" else [tuple(map(int, x.split(":"))) for x in kv["regs"].split(";")]
        stream = b"".join(data[o_:o_ + l_] for o_, l_ in regs)
        sp_lines.append("SP %d %s %s" % (total, kv["regs"], vlib.hexs(stream)))
        sp_expect.append(data)
        if len(regs) >= 2:
            nontriv.add((total, tuple(regs)))
    scratch.__exit__(None, None, None)
    res.cov["sparse_layouts_run"] = sparse_seen
    out_i = vlib.run_sharded(hb, sp_lines, env=env)
    out_m = vlib.run_model(sp_lines)
    for line, oi, om, want in zip(sp_lines, out_i, out_m, sp_expect):
        if oi != om:
            diffs.append(("receive_sparse", line[:120], oi[:80], om[:80]))
        if oi != "rc=0 out=" + vlib.hexs(want):
            viol.append({"case": line[:200], "why": "sparse transfer did not reconstruct the source bytes", "got": oi[:100]})
    # ---- large regions through the real helper (implementation side only: the byte lists are too long for the
    # extracted model, whose round-trip theorem covers every layout; what is checked here is the property itself on
    # the binary).  Region lengths sit around the buffer sizes a streaming receiver could use (64 KiB .. 8 MiB, +-1
    # and +4096), each followed by a hole or reaching the end of the file  (seed C14-5)
    import random as _random
    br = _random.Random(seed * 7919 + 14)
    big = []
    MiB = 1 << 20
    sizes = [4 * MiB + 4096, 8 * MiB + 1] if tier == "quick" else [64 * 1024 + 1, MiB + 1, 2 * MiB + 4096, 4 * MiB - 1, 4 * MiB, 4 * MiB + 1, 4 * MiB + 4096, 6 * MiB, 8 * MiB + 1, 16 * MiB + 513]
    for ln in sizes:
        big.append((ln + 3 * 4096 + 8192, [(4096, ln), (ln + 3 * 4096, 100)]))   # a hole after the large region, then a small one
        big.append((4096 + ln, [(4096, ln)]))                                      # the large region reaches the end of the file
    big_bad = 0
    for total, regs in big:
        stream = b"".join(br.randbytes(l_ - 1) + b"\x07" for _, l_ in regs)
        want = bytearray(total); pos = 0
        for o_, l_ in regs:
            want[o_:o_ + l_] = stream[pos:pos + l_]; pos += l_
        line = "SP %d %s %s" % (total, ";".join("%d:%d" % e for e in regs), vlib.hexs(stream))
        oi = vlib.run_sharded(hb, [line], env=env, shards=1)[0]
        if oi != "rc=0 out=" + vlib.hexs(bytes(want)):
            big_bad += 1
            got = oi[len("rc=0 out="):] if oi.startswith("rc=0 out=") else None
            where = "helper said " + oi[:60]
            if got is not None:
                gb = bytes.fromhex(got) if got != "-" else b""
                k = next((i for i in range(min(len(gb), total)) if gb[i] != want[i]), min(len(gb), total))
                where = "length %d (want %d), first difference at offset %d" % (len(gb), total, k)
            viol.append({"case": "SP %d %s <%d random bytes, PRNG seed %d>" % (total, ";".join("%d:%d" % e for e in regs), len(stream), seed * 7919 + 14),
                         "why": "sparse transfer with a large data region did not reconstruct the source bytes: " + where})
    res.cov["large_region_layouts"] = len(big)
    res.cov["large_region_sizes"] = sizes
    # short stream must be rejected
    short = ["SP 100 0:10;50:10 %s" % vlib.hexs(b"x" * 15)]
    si, sm_ = vlib.run_sharded(hb, short, env=env, shards=1)[0], vlib.run_model(short, shards=1)[0]
    if not (si.startswith("rc=1") and sm_.startswith("rc=1")):
        diffs.append(("short-stream", si[:60], sm_[:60]))
    res.cov["evaluations"] = len(rf) + len(cr) + len(cd) + len(layouts) + len(sp_lines)
    res.cov["distinct_nontrivial"] = len(nontriv) + len(set(out))
    res.cov["model_impl_disagreements"] = len(diffs)
    res.cov["observations"] = observations[:4]
    res.cov["rule"] = ("payload families (empty, 1 byte, random, compressible, magic-prefixed, constant) through the real `sy-remote receive-file` compressed and raw; both codecs round-tripped; "
                       "should_compress_smart over local x mode x size classes around 1 MiB x extensions x sample classes vs the model; sparse layouts (all hole, leading/trailing hole, many small regions, "
                       "unaligned boundaries, random) created on ext4, regions from detect_data_regions vs the model fed with the kernel extent map, packed and pushed through the real "
                       "`sy-remote receive-sparse-file`; non-trivial sparse = at least two data regions")
    res.cov["samples"] = [lines[0][:120], sp_lines[1][:160] if len(sp_lines) > 1 else "", "RF z %s" % rf[3][1][:16].hex()]
    res.cov["trusted_base"] = TRUSTED_COMMON + ["zstd and lz4_flex: decompress(compress x) = x and 'zstd frames begin with 28 B5 2F FD' are hypotheses of C14_pipeline_transparent_partial (exercised on the payload corpus, not proved)",
                                                 "kernel: lseek(SEEK_DATA/SEEK_HOLE) describes an extent map whose holes read as zeros"]
    for v in viol[:3]:
        res.violation("wire", v)
    if not viol and (diffs or pr["broken"]):
        what = list(pr["broken"]) + (["model/implementation disagree on %d cases; first: %r" % (len(diffs), diffs[0])] if diffs else [])
        res.violation("unproved", {"no_failing_input_found": True, "what_no_longer_checks": what}, no_input=True)
    return res.finish()


def replay(path):
    print(open(path).read()[:3000])
    return 0
