"""C15 -- verify-only reports exactly the differences and is read-only.
Theorems: coq/Properties/C15.v.  Tie: pairs of trees x all modes through `sy --verify-only --json`:
exit status and the three lists vs Verify.verify; oracle = the true sets computed from snapshots;
both trees snapshotted before/after (read-only)."""
import json, os
import vlib, world, engine_world as ew
from common import proof_phase, TRUSTED_COMMON

PID = "C15"


def gen_pair(r):
    dirs, files = ew.gen_tree(r, r.randrange(0, 8), with_big=False)
    sspec = ew.spec_of(dirs, files)
    ddirs, dfiles = set(dirs), {}
    for p, f in files.items():
        cls = r.choice(["same", "same", "same", "content", "size", "absent", "mtime"])
        if cls == "absent":
            continue
        g = dict(f)
        if cls == "content":
            g["seed"] = f["seed"] + 1           # equal size and mtime, different bytes
        elif cls == "size":
            g["size"] = f["size"] + 1
        elif cls == "mtime":
            g["mt_ns"] = f["mt_ns"] + 5 * 10**9
        dfiles[p] = g
    for _ in range(r.randrange(0, 3)):
        p = r.choice(["only_dst.txt", "a/only.bin", "sub/x"])
        if p not in files and p not in dirs:
            dfiles[p] = {"size": 3, "seed": 5, "mt_ns": 10**9}
            for i in range(1, len(p.split("/"))):
                ddirs.add("/".join(p.split("/")[:i]))
    if r.random() < 0.25:
        ddirs.discard(sorted(ddirs)[0]) if ddirs else None
    dspec = ew.spec_of(sorted(ddirs), dfiles)
    if r.random() < 0.25:
        # k empty directories only in the source, k extra files only in the destination (equal entry counts)
        k = r.randrange(1, 3)
        for j in range(k):
            sspec.append({"p": "emptydir%d" % j, "k": "d"})
            dspec.append({"p": "extra%d.dat" % j, "k": "f", "data": b"extra", "mt_ns": 10**9})
    if r.random() < 0.4:
        # symbolic links: equal on both sides (to a directory, to a file, dangling), other target, link on one side and a file on the other
        for j in range(r.randrange(1, 4)):
            name = "lnk%d" % j
            tgt = r.choice(["sub", "a", "nowhere", "../outside", "n1", "/etc/hostname", "."])
            cls = r.choice(["same", "same", "same", "other-target", "file-in-dst", "file-in-src", "only-src", "only-dst"])
            if cls in ("same", "other-target", "file-in-dst", "only-src"):
                sspec.append({"p": name, "k": "l", "target": tgt})
            if cls == "same":
                dspec.append({"p": name, "k": "l", "target": tgt})
            elif cls == "other-target":
                dspec.append({"p": name, "k": "l", "target": tgt + "x"})
            elif cls == "file-in-dst":
                dspec.append({"p": name, "k": "f", "data": tgt.encode(), "mt_ns": 10**9})
            elif cls == "file-in-src":
                sspec.append({"p": name, "k": "f", "data": tgt.encode(), "mt_ns": 10**9}); dspec.append({"p": name, "k": "l", "target": tgt})
            elif cls == "only-dst":
                dspec.append({"p": name, "k": "l", "target": tgt})
    conflict = None
    if r.random() < 0.25:
        # type conflict: a directory in one tree, a file of the same name in the other
        name = "tc"
        if r.random() < 0.5:
            sspec.append({"p": name, "k": "d"}); dspec.append({"p": name, "k": "f", "data": b"file", "mt_ns": 10**9})
        else:
            sspec.append({"p": name, "k": "f", "data": b"file", "mt_ns": 10**9}); dspec.append({"p": name, "k": "d"})
        conflict = name
        # (seed C15-4) the directory of the conflict is usually not empty: what is below it exists on that side only
        if r.random() < 0.75:
            side = sspec if sspec[-1]["k"] == "d" else dspec
            side.append({"p": name + "/a.txt", "k": "f", "data": b"inside the conflicting directory", "mt_ns": 10**9})
            if r.random() < 0.5:
                side.append({"p": name + "/sub", "k": "d"})
                side.append({"p": name + "/sub/b.txt", "k": "f", "data": b"deeper", "mt_ns": 10**9})
    return sspec, dspec, conflict


def relink(r, src, dst):
    """With probability 0.35: turn some names into hard links of other names, independently per tree."""
    if r.random() >= 0.45:
        return 0
    both = sorted(p for p, e in world.snapshot(src, content=False).items() if e["kind"] == "f" and os.path.isfile(os.path.join(dst, p)) and not os.path.islink(os.path.join(dst, p)))
    n = 0

    def ln(root, frm, to):
        os.remove(os.path.join(root, to))
        os.link(os.path.join(root, frm), os.path.join(root, to))

    eq = [p for p in both if world.sha(os.path.join(src, p)) == world.sha(os.path.join(dst, p))]
    if len(eq) >= 2 and len(both) >= 3 and r.random() < 0.7:
        # crossing groups: p and q are equal on both sides; every x is a name of p's inode in the source and of q's inode in the
        # destination (so x differs unless p and q hold the same bytes)
        p_, q_ = r.sample(eq, 2)
        rest = [x for x in both if x not in (p_, q_)]
        for x in r.sample(rest, min(len(rest), r.randrange(1, 4))):
            ln(src, p_, x); ln(dst, q_, x)
            n += 2
    for root in (src, dst):
        names = sorted(p for p, e in world.snapshot(root, content=False).items() if e["kind"] == "f")
        for _ in range(r.randrange(0, 3)):
            if len(names) >= 2:
                a, b = r.sample(names, 2)
                if not os.path.samefile(os.path.join(root, a), os.path.join(root, b)):
                    ln(root, a, b)
                    n += 1
    return n


def ventries(listing, snap, ids):
    out = []
    for kind, rel, _ in listing:
        e = snap[rel]
        if kind == "d":
            out.append("d:%s:0:0" % ids.path(rel))
        elif kind == "f":
            out.append("f:%s:%d:%d" % (ids.path(rel), e["size"], ids.content(e["sha"], e["size"])))
        elif kind == "l" and e["kind"] == "l":
            # a symbolic link is a file whose content is its target text (never read through)
            out.append("f:%s:%d:%d" % (ids.path(rel), len(e["target"].encode()), ids.content("L:" + e["target"], len(e["target"].encode()))))
    return ",".join(out) or "-"


def run(tier, seed):
    res = vlib.Result(PID, tier, seed)
    pr = proof_phase(res, PID)
    okm, outm = vlib.build_model()
    oki, outi, _ = vlib.build_impl()
    if not (okm and oki):
        res.violation("build", "build failed:\n" + (outi if not oki else outm)[-3000:], no_input=True)
        return res.finish()
    known = {f["class"]: f for f in vlib.load_known()["findings"] if f["property"] == PID}
    r = vlib.rng_for(seed, PID)
    n = 90 if tier == "quick" else 1000
    diffs, viol, hits, nontriv, samples = [], [], {}, set(), []
    cases, obs = [], []
    with vlib.Scratch() as sc:
        for i in range(n):
            sspec, dspec, conflict = gen_pair(r)
            mode = r.choice(["fast", "standard", "standard", "verify", "paranoid", "checksum"])
            base = os.path.join(sc.dir, "w%d" % i)
            src, dst = base + "/src", base + "/dst"
            ew.mk(src, sspec); ew.mk(dst, dspec)
            os.makedirs(src, exist_ok=True); os.makedirs(dst, exist_ok=True)
            # hard links inside the trees (names of one inode share bytes): the two trees group their names independently, so a
            # name can be a link of an already-compared inode on both sides and still differ
            linked = relink(r, src, dst)
            nlinked = locals().get("nlinked", 0) + (1 if linked else 0)
            bs, bd = world.snapshot(src), world.snapshot(dst)
            args = [src, dst, "--verify-only", "--json"] + (["--checksum"] if mode == "checksum" else ["--mode", mode])
            rr = world.run_sy(args, sc)
            as_, ad = world.snapshot(src), world.snapshot(dst)
            ev = None
            for line in rr["out"].split("\n"):
                try:
                    j = json.loads(line)
                    if j.get("type") == "verification_result":
                        ev = j
                except ValueError:
                    pass
            ids = ew.Ids()
            case = "V %s - - %s %s" % ("fast" if mode == "fast" else "content", ventries(ew.listing(src), bs, ids), ventries(ew.listing(dst), bd, ids))
            if ev is None:
                viol.append({"world": i, "why": "no verification_result event", "rc": rr["rc"], "stderr": rr["err"][-300:]})
                continue
            f = lambda l: ",".join(sorted(ids.path(p) for p in l)) or "-"
            o = "exit=%s matched=%d mismatched=%s only_src=%s only_dst=%s errors=%s" % (rr["rc"], ev["files_matched"], f(ev["files_mismatched"]), f(ev["files_only_in_source"]),
                                                                                       f(ev["files_only_in_dest"]), f([e["path"] for e in ev["errors"]]))
            cases.append(case); obs.append((i, mode, conflict, o, rr, ev, bs, bd))
            # read-only
            ch = world.diff_snap(bs, as_) + world.diff_snap(bd, ad)
            if ch:
                viol.append({"world": i, "why": "--verify-only modified a tree", "paths": ch[:5]})
            # oracle: the true sets
            lk = lambda e: dict(e, sha="L:" + e["target"]) if e["kind"] == "l" else e
            sfiles = {p: lk(e) for p, e in bs.items() if e["kind"] in "fl"}
            dfiles = {p: lk(e) for p, e in bd.items() if e["kind"] in "fl"}
            # a source file whose path is a DIRECTORY in the destination exists on both sides and differs: a mismatch;
            # a destination file whose path is a directory in the source has no counterpart: destination-only
            true_mis = sorted(p for p in sfiles if (p in dfiles and sfiles[p]["sha"] != dfiles[p]["sha"]) or (p in bd and bd[p]["kind"] == "d"))
            true_os = sorted(p for p in sfiles if p not in bd)
            true_od = sorted(p for p in dfiles if p not in sfiles)
            same = not (true_mis or true_os or true_od)
            got = (sorted(ev["files_mismatched"]), sorted(ev["files_only_in_source"]), sorted(ev["files_only_in_dest"]))
            want_exit = 0 if same else 1
            # (nothing in these trees is unreadable -- the checks run as root --, so exit 2 and an errors list never apply)
            ok = rr["rc"] == want_exit and got == (true_mis, true_os, true_od) and not ev["errors"]
            if not ok:
                klass = None
                fl = {"world": i, "mode": mode, "why": "exit %s / lists %r, true sets %r" % (rr["rc"], got, (true_mis, true_os, true_od)), "klass": klass}
                obs[-1] = obs[-1] + (fl,)
            else:
                obs[-1] = obs[-1] + (None,)
            if true_mis or true_os or true_od:
                nontriv.add((mode, tuple(true_mis), tuple(true_os), tuple(true_od)))
            if len(samples) < 3:
                samples.append({"mode": mode, "exit": rr["rc"], "mismatched": ev["files_mismatched"], "only_src": ev["files_only_in_source"], "only_dst": ev["files_only_in_dest"]})
        # two FILES as arguments (equal, different with equal size and mtime, other size, destination missing, destination a directory)
        # and a destination that holds sy's own files after a complete sync: through the binary, judged by the statement
        nsingle = 0
        for i in range(10 if tier == "quick" else 60):
            base = os.path.join(sc.dir, "sf%d" % i); os.makedirs(base)
            a, b = base + "/one.bin", base + "/two.bin"
            cls = ["equal", "same-size-mtime", "other-size", "missing", "directory"][i % 5]
            data = world.pbytes(4000 + i, r.choice([0, 1, 700, 70000]))
            open(a, "wb").write(data)
            if cls == "equal":
                open(b, "wb").write(data)
            elif cls == "same-size-mtime":
                open(b, "wb").write(bytes([x ^ 1 for x in data]) if data else b"")
            elif cls == "other-size":
                open(b, "wb").write(data + b"!")
            elif cls == "directory":
                os.makedirs(b)
            for f_ in (a, b):
                if os.path.isfile(f_):
                    os.utime(f_, ns=(ew.T0NS, ew.T0NS))
            mode = r.choice(["fast", "standard", "verify", "paranoid"])
            rr = world.run_sy([a, b, "--verify-only", "--json", "--mode", mode], sc)
            nsingle += 1
            same = cls == "equal" or (cls == "same-size-mtime" and not data)
            if (rr["rc"] == 0) != same or rr["rc"] not in (0, 1):
                viol.append({"world": "single-file-%d" % i, "class": cls, "mode": mode, "size": len(data), "why": "exit %s for two files that %s" % (rr["rc"], "are equal" if same else "differ"), "stdout": rr["out"][-300:]})
        for i in range(3 if tier == "quick" else 12):
            base = os.path.join(sc.dir, "meta%d" % i); src, dst = base + "/src", base + "/dst"
            sspec, _, _ = gen_pair(r)
            ew.mk(src, sspec); os.makedirs(src, exist_ok=True); os.makedirs(dst)
            flags = [["--use-cache=true"], ["--checksum", "--checksum-db=true"], ["--use-cache=true", "--checksum", "--checksum-db=true"]][i % 3]
            r1 = world.run_sy([src, dst, "-q"] + flags, sc)
            # (858b5e0) the state-clearing flags next to --verify-only: a verification modifies neither tree, sy's own files included
            with open(dst + "/.sy-state.json", "w") as fh:
                fh.write('{"left": "by an interrupted run"}')
            if not os.path.exists(dst + "/.sy-dir-cache.json"):
                with open(dst + "/.sy-dir-cache.json", "w") as fh:
                    fh.write('{"version":2,"directories":{},"files":{}}')
            snap_b = (world.snapshot(src), world.snapshot(dst))
            rr = world.run_sy([src, dst, "--verify-only", "--json"] + [[], ["--clean-state", "--clear-cache"], ["--clean-state"]][i % 3], sc)
            ch_ = world.diff_snap(snap_b[0], world.snapshot(src)) + world.diff_snap(snap_b[1], world.snapshot(dst))
            if ch_:
                viol.append({"world": "after-complete-sync-%d" % i, "why": "--verify-only (with %s) modified a tree: %r" % (" ".join([[], ["--clean-state", "--clear-cache"], ["--clean-state"]][i % 3]) or "no further flag", ch_[:4])})
            nsingle += 1
            if r1["rc"] == 0 and rr["rc"] != 0:
                viol.append({"world": "after-complete-sync-%d" % i, "flags": flags, "why": "a complete sync (exit 0) with %s, then --verify-only exits %s" % (" ".join(flags), rr["rc"]), "stdout": rr["out"][-400:]})
    # the translated state-file guards of main.rs under --verify-only (C15_verify_only_clears_no_state_file): when one can hold, the world
    import c08
    with vlib.Scratch() as sc3:
        sg_hits = c08.stateguard_search(sc3, "verify_only")
    for h_ in sg_hits:
        if h_["modified"]:
            viol.append({"world": "state-guard-" + h_["site"], "why": h_["why"], "cli": h_["cli"]})
    model = vlib.run_model(cases)
    for (i, mode, conflict, o, rr, ev, bs, bd, fl), m, case in zip(obs, model, cases):
        same = (o == m)
        if not same:
            diffs.append({"world": i, "mode": mode, "impl": o, "model": m, "case": case})
        if fl:
            if fl["klass"] in known and same:
                hits.setdefault(known[fl["klass"]]["id"], []).append(fl)
            else:
                viol.append(dict(fl, impl=o, model=m, case=case))
    res.cov["evaluations"] = len(cases)
    res.cov["distinct_nontrivial"] = len(nontriv)
    res.cov["model_impl_disagreements"] = len(diffs)
    res.cov["worlds_with_hard_links_regrouped_per_tree"] = nlinked
    res.cov["single_file_pairs_and_after_sync_runs"] = nsingle
    res.cov["known_finding_hits"] = {k: len(v) for k, v in hits.items()}
    res.cov["rule"] = ("pairs of trees: destination derived per file from the source (same / same size+mtime different bytes / other size / absent / other mtime), destination-only files, missing directories, "
                       "15% with a directory-vs-file conflict; modes fast/standard/verify/paranoid/--checksum; non-trivial = the trees differ; distinct = distinct (mode, true sets)")
    res.cov["samples"] = samples
    res.cov["trusted_base"] = TRUSTED_COMMON + ["xxh3/BLAKE3 collision-freedom (content identities)", "read-only is checked by snapshots of both trees (the model is a pure function of the listings)"]
    for cls, f in known.items():
        h = hits.get(f["id"], [])
        if h:
            res.known.append("%s %s [%d cases this run]" % (f["id"], f["what"], len(h)))
        else:
            res.notes.append("listed finding %s was not reproduced by this run" % f["id"])
    for v in viol[:3]:
        res.violation("world", v)
    if not viol and (diffs or pr["broken"]):
        what = list(pr["broken"]) + (["--verify-only differs from Verify.verify on %d pairs; first: %r" % (len(diffs), diffs[0])] if diffs else [])
        res.violation("unproved", {"no_failing_input_found": True, "what_no_longer_checks": what}, no_input=True)
    return res.finish()


def replay(path):
    print(open(path).read()[:4000])
    return 0
