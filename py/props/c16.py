"""C16 -- filters select exactly the documented set.
Theorems: coq/Properties/C16.v.  Tie: (A) FilterEngine::should_include (h_filter) vs the extracted
model over rule lists x a path universe; (B) whole runs of the real binary with --filter/--include/
--exclude/--min-size/--max-size: the set of transferred entries vs engine_select (proved equal to the
statement's set) on the scanner's listing, whose well-formedness hypothesis is evaluated each time."""
import os, itertools, json
import vlib, world
from common import proof_phase, TRUSTED_COMMON

PID = "C16"

PATTERNS = ["*", "*.log", "*.txt", "a", "b", "a*", "*a", "?", "??", "a?", "?.log", "x.log", "build", "build/", "src/", "*/",
            "a/", "a/b", "a/b/", "a/*", "*/b", "src/*.rs", "a/b/c", "a/?", "*/*", "a*/", "?/", "b.txt", "*.t?t", "a/b/*",
            "/", "a//", "lo*g", "*o*", ".hidden", ".*", "a b", "ü*", "日本", "src/a.rs"]

UNIVERSE = [("d", "a"), ("f", "a/x.log"), ("f", "a/b.txt"), ("d", "a/b"), ("f", "a/b/c"), ("f", "a/b/x.log"), ("d", "a/b/build"),
            ("f", "a/b/build/o"), ("d", "b"), ("f", "b/a"), ("f", "b/b.txt"), ("d", "build"), ("f", "build/a"), ("d", "build/a2"),
            ("f", "build/a2/x.log"), ("d", "src"), ("f", "src/a.rs"), ("f", "src/b.rs"), ("d", "src/sub"), ("f", "src/sub/c.rs"),
            ("f", "x.log"), ("f", "b.txt"), ("f", "a.txt"), ("f", "ab"), ("f", "ba"), ("f", "log"), ("f", ".hidden"), ("d", ".hd"),
            ("f", ".hd/x.log"), ("f", "a b"), ("d", "a b2"), ("f", "a b2/q"), ("f", "üx"), ("d", "日本"), ("f", "日本/ü.log"),
            ("f", "lo--g"), ("f", "aa"), ("d", "aa2"), ("f", "aa2/a"), ("f", "q"), ("d", "x"), ("d", "x/build"), ("f", "x/build/y"),
            ("f", "x/a"), ("d", "x/a2"), ("d", "x/a2/b"), ("f", "x/a2/b/c"),
            # names that are not valid UTF-8 (surrogate-escaped here): matched in their lossy form, one U+FFFD per such byte
            ("f", "bad\udcff.log"), ("d", "a\udcfe"), ("f", "a\udcfe/x.log"), ("f", "\udcff")]


def hx(s):
    return s.encode("utf-8", "surrogateescape").hex() or "-"


def spec_of(rules):
    return ",".join("%d:%s" % (k, hx(t)) for k, t in rules) if rules else "-"


def rule_text(r, kind, pat):
    """kind 0: --filter text with a random prefix form"""
    if kind == 0:
        form = r.choice(["+ %s", "- %s", "+%s", "-%s", "%s", " + %s ", "-  %s"])
        return form % pat
    return pat


def gen_decisions(seed, tier):
    r = vlib.rng_for(seed, "C16A")
    ents = ",".join("%s:%s" % (k, hx(p)) for k, p in UNIVERSE)
    cases = []
    for pat in PATTERNS:                     # every single rule, every form
        for kind, text in ((1, pat), (2, pat), (0, "+ " + pat), (0, "- " + pat), (0, pat), (0, "+" + pat)):
            cases.append(([(kind, text)], "F %s %s" % (spec_of([(kind, text)]), ents)))
    for text in ("", "   ", "# comment", "+", "-", "+ ", "a**", "a[", "***"):   # `**` alone and [..] classes are outside the modelled grammar
        cases.append(([(0, text)], "F %s %s" % (spec_of([(0, text)]), ents)))
    n = 2500 if tier == "quick" else 40000
    for _ in range(n):
        k = r.choice([2, 2, 3, 3, 4])
        rules = []
        for _ in range(k):
            kind = r.choice([0, 0, 1, 2])
            rules.append((kind, rule_text(r, kind, r.choice(PATTERNS))))
        rules.sort(key=lambda x: 0 if x[0] == 0 else x[0])      # the CLI order: filter, include, exclude
        cases.append((rules, "F %s %s" % (spec_of(rules), ents)))
    return cases


def gen_world(r):
    """a tree (dirs before files), CLI rules and size bounds"""
    names = ["a", "b", "build", "src", "x.log", "b.txt", "a.rs", "c", ".hid", "a b", "ü", "log", "aa", "b\udcff.log", "\udcfe"]
    dirs = set()
    spec = []
    for _ in range(r.randrange(1, 6)):
        depth = r.randrange(1, 4)
        p = "/".join(r.choice(names[:4] + ["sub", "aa", "a b"]) for _ in range(depth))
        for i in range(1, depth + 1):
            dirs.add("/".join(p.split("/")[:i]))
    for d in sorted(dirs):
        spec.append({"p": d, "k": "d"})
    files = set()
    for _ in range(r.randrange(2, 12)):
        d = r.choice(sorted(dirs) + [""])
        n = r.choice(names[4:] + ["f%d" % r.randrange(4)])
        p = (d + "/" + n) if d else n
        if p in dirs or p in files:
            continue
        files.add(p)
        spec.append({"p": p, "k": "f", "data": ("rand", r.randrange(1 << 30), r.choice([0, 1, 5, 10, 100, 1000, 2048, 5000]))})
    rules = []
    for _ in range(r.randrange(0, 4)):
        kind = r.choice([0, 1, 2])
        rules.append((kind, rule_text(r, kind, r.choice(PATTERNS[:30]))))
    # (seeds C16-1, C16-2, made deterministic after the full re-run of round 4 missed them) an excluded directory next to entries whose
    # names merely START with its name and are scanned after it: sibling directories `build2`, `build.d` with content
    if r.random() < 0.3:
        top = r.choice(["", "src/"])
        if top and "src" not in dirs:
            spec.insert(0, {"p": "src", "k": "d"}); dirs.add("src")
        for d in ("build", "build2", "build.d"):
            if top + d not in dirs and top + d not in files:
                dirs.add(top + d); spec.append({"p": top + d, "k": "d"})
                spec.append({"p": top + d + "/inside.txt", "k": "f", "data": ("rand", r.randrange(1 << 30), 7)})
        spec.sort(key=lambda e: (e["k"] != "d", e["p"]))
        rules.append(r.choice([(2, "build/"), (2, "build"), (0, "- build/"), (2, top + "build/") if top else (2, "build/")]))
    rules = [x for x in rules if x[0] == 0] + [x for x in rules if x[0] == 1] + [x for x in rules if x[0] == 2]  # main.rs order
    mn = r.choice([None, None, 1, 10, 1024])
    mx = r.choice([None, None, 100, 2048, 4096])
    if mn is not None and mx is not None and mn > mx:
        mx = None
    return spec, rules, mn, mx


def run_world(sc, idx, spec, rules, mn, mx):
    base = os.path.join(sc.dir, "w%d" % idx)
    src, dst = os.path.join(base, "src"), os.path.join(base, "dst")
    world.mk_tree(src, spec)
    args = [src, dst]
    # options of different kinds are given in arbitrary command-line order (main.rs regroups them by kind); options of the
    # SAME kind keep their relative order, which is significant (first match wins)
    import random as _random
    rr = _random.Random(idx * 7919 + 13)
    queues = [[x for x in rules if x[0] == k] for k in (0, 1, 2)]
    shuffled = []
    while any(queues):
        q = rr.choice([q for q in queues if q])
        shuffled.append(q.pop(0))
    for kind, text in shuffled:
        args.append({0: "--filter", 1: "--include", 2: "--exclude"}[kind] + "=" + text)
    if mn is not None:
        args.append("--min-size=%d" % mn)
    if mx is not None:
        args.append("--max-size=%d" % mx)
    res = world.run_sy(args, sc)
    got = sorted(world.snapshot(dst, content=False).keys())
    return src, res, got


def run(tier, seed):
    res = vlib.Result(PID, tier, seed)
    pr = proof_phase(res, PID)
    okm, outm = vlib.build_model()
    oki, outi, _ = vlib.build_impl()
    if not (okm and oki):
        res.violation("build", "build failed:\n" + (outi if not oki else outm)[-3000:], no_input=True)
        return res.finish()
    # ---- (A) decisions
    dec = gen_decisions(seed, tier)
    lines = [c for _, c in dec]
    impl = vlib.run_sharded([os.path.join(vlib.BIN, "h_filter")], lines)
    model = vlib.run_model(lines)
    diffs = [(dec[i][0], impl[i], model[i]) for i in range(len(lines)) if impl[i] != model[i]]
    distinct = len(set(impl))
    res.cov["evaluations"] = len(lines) * len(UNIVERSE)
    res.cov["rule_lists"] = len(lines)
    res.cov["decision_vectors_distinct"] = distinct
    res.cov["model_impl_disagreements"] = len(diffs)
    # ---- (B) worlds through the real binary
    r = vlib.rng_for(seed, "C16B")
    nworlds = 60 if tier == "quick" else 600
    wviol, wrun, wnontrivial, wfbad = [], 0, set(), 0
    samples = []
    with vlib.Scratch() as sc:
        worlds = [gen_world(r) for _ in range(nworlds)]
        # worlds built from rule lists on which (A) disagreed: the search for a failing input
        for rules, _, _ in diffs[:40]:
            sp, _, mn, mx = gen_world(r)
            sp = [{"p": p, "k": "d"} for k, p in UNIVERSE if k == "d"] + [{"p": p, "k": "f", "data": b"x"} for k, p in UNIVERSE if k == "f"]
            worlds.append((sp, rules, None, None))
        # ... and, because the engine prunes below a directory it has filtered out (which hides what the matcher says about the
        # entries inside), the same rule lists behind rules that let the ancestors of a disagreeing path in: `+ <base name>` for every
        # ancestor, as includes and as filter rules
        for rules, iv, mv in diffs[:25]:
            for pos in [j for j in range(min(len(iv), len(mv), len(UNIVERSE))) if iv[j] != mv[j]][:2]:
                parts = UNIVERSE[pos][1].split("/")
                anc = parts[:-1]
                if not anc:
                    continue
                sp = [{"p": p, "k": "d"} for k, p in UNIVERSE if k == "d"] + [{"p": p, "k": "f", "data": b"x"} for k, p in UNIVERSE if k == "f"]
                for lead in ([(1, a) for a in anc], [(0, "+ " + a) for a in anc]):
                    rl = sorted(lead + list(rules), key=lambda x: 0 if x[0] == 0 else x[0])
                    worlds.append((sp, rl, None, None))
        for idx, (spec, rules, mn, mx) in enumerate(worlds):
            src, rr, got = run_world(sc, idx, spec, rules, mn, mx)
            listing = vlib.run_sharded([os.path.join(vlib.BIN, "h_filter")], ["L " + hx(src)], shards=1)[0]
            if listing in ("ERR", "PANIC"):
                continue
            ents = [] if listing == "-" else listing.split(",")
            ents_s = ",".join(e.replace("l:", "f:", 1) if e.startswith("l:") else e for e in ents) or "-"
            m = vlib.run_model(["S %s %s %s %s" % (spec_of(rules), mn if mn is not None else "-", mx if mx is not None else "-", ents_s)], shards=1)[0]
            wrun += 1
            if m == "rules=ERR":
                # invalid rule: the binary must refuse and transfer nothing
                if rr["rc"] == 0 and got:
                    wviol.append({"why": "invalid rule accepted", "rules": rules, "got": got})
                continue
            kv = dict(x.split("=", 1) for x in m.split(" "))
            if kv["wf"] != "1":
                wfbad += 1
            sel = [] if kv["sel"] == "-" else [int(i) for i in kv["sel"].split(",")]
            want = sorted(bytes.fromhex(ents[i].split(":")[1]).decode("utf-8", "surrogateescape") for i in sel)
            if len(samples) < 3:
                samples.append({"rules": rules, "min": mn, "max": mx, "source_entries": len(ents), "transferred": got})
            if want and len(want) < len(ents):
                wnontrivial.add((tuple(rules), mn, mx, tuple(want)))
            if rr["rc"] != 0 or got != want:
                wviol.append({"why": "transferred set differs from the selected set (Theorem C16_engine_select)", "rules": rules, "min": mn,
                              "max": mx, "tree": [(e["k"], e["p"], (e.get("data") or ("", 0, 0))[2] if isinstance(e.get("data"), tuple) else len(e.get("data", b""))) for e in spec],
                              "expected": want, "got": got, "rc": rr["rc"], "stderr": rr["err"][-300:]})
    res.cov["worlds"] = wrun
    res.cov["worlds_listing_not_wellformed"] = wfbad
    res.cov["distinct_nontrivial"] = len(wnontrivial) + distinct
    res.cov["rule"] = ("(A) every single rule of a 40-pattern pool in 6 textual forms + seeded random rule lists (length 2-4, CLI order) x a 51-path universe (four names that are not valid UTF-8), "
                       "decision vectors compared model vs FilterEngine; (B) generated trees x CLI rules x size bounds through the real binary; a world is "
                       "non-trivial when the selected set is a proper non-empty subset; distinct = distinct decision vectors + distinct (rules,bounds,selected) worlds")
    res.cov["samples"] = [dec[0][1][:200], dec[300][1][:200]] + samples
    res.cov["trusted_base"] = TRUSTED_COMMON + ["glob crate matcher: re-implemented in the model for literal|?|* and compared on every case (validated, not verified)",
                                                 "walk order of the scanner: parent-before-child, each path once (hypothesis listing_wf; evaluated by listing_ok on every scanned tree)"]
    for v in wviol[:3]:
        res.violation("world", v)
    if wfbad:
        res.violation("listing", {"why": "scanner listing violates the parent-first hypothesis of C16_engine_select on %d worlds" % wfbad}, no_input=True)
    if not wviol and (diffs or pr["broken"]):
        what = list(pr["broken"])
        if diffs:
            what.append("FilterEngine::should_include differs from the model on %d rule lists; first: rules=%r impl=%s model=%s" % (len(diffs), diffs[0][0], diffs[0][1], diffs[0][2]))
        res.violation("unproved", {"no_failing_input_found": True, "what_no_longer_checks": what}, no_input=True)
    return res.finish()


def replay(path):
    d = json.load(open(path))
    print(json.dumps(d, indent=1, ensure_ascii=False)[:3000])
    return 0
