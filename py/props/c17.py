"""C17 -- symlinks and extended attributes are reproduced per the selected mode (and C02 via c02.py).
Theorems: coq/Properties/C17.v over Model/Links.v.  Tie: histories {create, re-sync, retarget, prior entry kinds}
per link kind x link mode through the real binary; readlink / kind of the destination entry after every run vs
Links.sync_link; source and sentinel snapshots; user xattrs with and without -X."""
import json, os
import vlib, world
from common import proof_phase, TRUSTED_COMMON

PID = "C17"
KINDS = ["rel", "abs_src", "abs_out", "dangling", "dirlink", "chain", "abs_dir_src", "abs_dir_out"]


def build(base, r):
    src, dst, out = base + "/src", base + "/dst", base + "/outside"
    os.makedirs(src + "/d"); os.makedirs(src + "/d2"); os.makedirs(out + "/sub"); os.makedirs(dst)
    for name, data in (("t1.txt", b"one"), ("t2.txt", b"twotwo"), ("d/in.txt", b"inner")):
        with open(os.path.join(src, name), "wb") as f:
            f.write(data)
        os.utime(os.path.join(src, name), ns=((world.T0 + 100) * 10**9,) * 2)
    with open(out + "/o.txt", "wb") as f:
        f.write(b"outside")
    return src, dst, out


def target_of(kind, src, out, alt=False):
    return {"rel": "t2.txt" if alt else "t1.txt", "abs_src": src + ("/t2.txt" if alt else "/t1.txt"), "abs_out": out + "/o.txt",
            "dangling": "nowhere2" if alt else "nowhere", "dirlink": "d2" if alt else "d", "chain": "rel_helper",
            "abs_dir_src": src + ("/d2" if alt else "/d"), "abs_dir_out": out + ("/sub" if alt else "")}[kind]


def cwd_class(target, cwd, ids):
    p = target if os.path.isabs(target) else os.path.join(cwd, target)
    if not os.path.exists(p):
        return "m"
    if os.path.isdir(p):
        return "d"
    return "f%d" % ids.setdefault(world.sha(p), len(ids) + 1)


def dclass(path, tids, cids):
    if not os.path.lexists(path):
        return "a"
    if os.path.islink(path):
        return "l%d" % tids.setdefault(os.readlink(path), len(tids) + 1)
    if os.path.isdir(path):
        return "d"
    return "f%d" % cids.setdefault(world.sha(path), len(cids) + 1)


def run(tier, seed, pid=PID):
    res = vlib.Result(pid, tier, seed)
    pr = proof_phase(res, pid)
    okm, outm = vlib.build_model()
    oki, outi, _ = vlib.build_impl()
    if not (okm and oki):
        res.violation("build", "build failed:\n" + (outi if not oki else outm)[-3000:], no_input=True)
        return res.finish()
    known = {f["class"]: f for f in vlib.load_known()["findings"] if f["property"] == pid}
    r = vlib.rng_for(seed, pid)
    n = 40 if tier == "quick" else 400
    diffs, viol, hits, nontriv, samples = [], [], {}, set(), []
    cases, observed = [], []
    with vlib.Scratch() as sc:
        for i in range(n):
            base = os.path.join(sc.dir, "w%d" % i)
            src, dst, out = build(base, r)
            mode = r.choice(["preserve", "preserve", "follow", "skip"])
            kind = KINDS[i % len(KINDS)]
            forced = (i % 10 == 9 and pid != "C02")      # relative and chained links in follow mode, started outside the link's directory (the class fixed by 93de336), on every run
            if forced:
                mode, kind = "follow", ("rel" if i % 20 == 9 else "chain")
            if kind == "chain":
                os.symlink("t1.txt", src + "/rel_helper")
            tids, cids = {}, {}
            lpath, dpath = src + "/lnk", dst + "/lnk"
            # prior destination entry
            prior = r.choice(["absent", "absent", "samelink", "otherlink", "file", "dir"])
            if forced:
                prior = "absent"
            if prior == "samelink":
                os.symlink(target_of(kind, src, out), dpath)
            elif prior == "otherlink":
                os.symlink(r.choice(["elsewhere", out + "/o.txt", src + "/t2.txt", out, "."]), dpath)   # incl. links that resolve to a directory
            elif prior == "file":
                open(dpath, "w").write("user file")
            elif prior == "dir":
                os.makedirs(dpath)
            dinit = dclass(dpath, tids, cids)
            cwd = r.choice([sc.dir, src])
            if forced:
                cwd = sc.dir
            steps, outs = [], []
            nruns = r.randrange(1, 4) if pid != "C02" else r.randrange(2, 4)
            b_src = b_out = None
            wrote_outside = False
            for k in range(nruns):
                alt = (k == nruns - 1 and nruns > 1 and r.random() < 0.5)
                if os.path.lexists(lpath):
                    os.remove(lpath)
                tgt = target_of(kind, src, out, alt)
                os.symlink(tgt, lpath)
                t_id = tids.setdefault(tgt, len(tids) + 1)
                steps.append("%d:%s" % (t_id, cwd_class(tgt, src, cids)))      # resolution from the directory that holds the link
                xargs = ["-X"] if i % 3 == 0 else []
                if i % 3 == 0:
                    os.setxattr(src + "/t1.txt", "user.note", b"hello")
                b_src, b_out = world.snapshot(src), world.snapshot(out)
                if pid == "C02" and k >= 1:
                    xargs = xargs + r.choice([["--delete", "--force-delete"], ["--delete", "--force-delete"], ["--dry-run", "--delete"], ["--verify-only"], []])
                rr = world.run_sy([src, dst, "--links", mode, "-j1", "-q"] + xargs, sc, cwd=cwd)
                a_src, a_out = world.snapshot(src), world.snapshot(out)
                ch = [("src", p) for p in world.diff_snap(b_src, a_src)] + [("outside", p) for p in world.diff_snap(b_out, a_out)]
                if ch:
                    wrote_outside = True
                    viol.append({"world": i, "mode": mode, "kind": kind, "prior": prior, "run": k + 1, "why": "the run modified %r" % ch[:4], "prop": "C02"})
                outs.append(dclass(dpath, tids, cids))
                if pid == "C02":
                    continue
                # statement-level oracle (C17)
                if mode == "preserve" and prior != "dir":
                    if not (os.path.islink(dpath) and os.readlink(dpath) == tgt):
                        viol.append({"world": i, "mode": mode, "kind": kind, "prior": prior, "run": k + 1, "why": "preserve mode: destination is not the symlink %r (found %s)" % (tgt, outs[-1]), "prop": "C17"})
                if mode == "skip" and prior == "absent" and os.path.lexists(dpath):
                    viol.append({"world": i, "mode": mode, "kind": kind, "run": k + 1, "why": "skip mode created something", "prop": "C17"})
                if mode == "follow" and prior in ("absent", "file", "otherlink") and kind in ("rel", "abs_src", "abs_out", "chain"):
                    real = os.path.realpath(lpath)
                    good = os.path.isfile(dpath) and not os.path.islink(dpath) and os.path.isfile(real) and world.sha(dpath) == world.sha(real)
                    if not good:
                        rel = not os.path.isabs(tgt)
                        f = {"world": i, "mode": mode, "kind": kind, "prior": prior, "run": k + 1, "cwd_is_src": cwd == src,
                             "why": "follow mode: destination is not a regular copy of the linked file (found %s)" % outs[-1], "prop": "C17",
                             "klass": None}
                        if f["klass"] in known:
                            hits.setdefault(known[f["klass"]]["id"], []).append(f)
                        else:
                            viol.append(f)
                if i % 3 == 0 and os.path.isfile(dst + "/t1.txt"):
                    xs = os.listxattr(dst + "/t1.txt")
                    if "user.note" not in xs:
                        viol.append({"world": i, "why": "-X given but user.note missing on the destination file", "prop": "C17"})
                elif os.path.isfile(dst + "/t1.txt") and os.listxattr(dst + "/t1.txt"):
                    viol.append({"world": i, "why": "xattrs present on the destination although -X was not given", "prop": "C17"})
            cases.append("LK %s %s %s" % (mode, dinit, ",".join(steps)))
            observed.append(",".join(outs))
            nontriv.add((mode, kind, prior, nruns))
            if len(samples) < 3:
                samples.append({"mode": mode, "kind": kind, "prior": prior, "case": cases[-1], "observed": observed[-1]})
    model = vlib.run_model(cases)
    for c, o, m in zip(cases, observed, model):
        if pid == "C02":
            if "!" in m:
                viol.append({"case": c, "why": "the model itself writes through a destination link", "prop": "C02"})
            continue
        if o != m.replace("!", ""):
            diffs.append({"case": c, "impl": o, "model": m})
        if "!" in m:
            viol.append({"case": c, "why": "the model itself writes through a destination link", "prop": "C02"})
    if pid == "C02":
        viol = [v for v in viol if v.get("prop") == "C02"]
    else:
        viol = [v for v in viol if v.get("prop") != "C02"]
    res.cov["evaluations"] = len(cases)
    res.cov["distinct_nontrivial"] = len(nontriv)
    res.cov["model_impl_disagreements"] = len(diffs)
    res.cov["known_finding_hits"] = {k: len(v) for k, v in hits.items()}
    res.cov["rule"] = ("link kinds %r x modes preserve/follow/skip x prior destination entry (absent, same link, other link incl. into the source / a sentinel, regular file, directory) x 1-3 runs "
                       "with an optional retarget before the last run x working directory (scratch root or the source root); every third world with -X and a user xattr; "
                       "distinct = distinct (mode, kind, prior, runs)" % (KINDS,))
    res.cov["samples"] = samples
    res.cov["trusted_base"] = TRUSTED_COMMON + ["kernel symlink semantics (symlink(2) EEXIST, fs::copy follows a destination link, remove_file removes the link itself)",
                                                 "xattrs are validated by runs only (copy_file strips, write_xattrs re-applies under -X): no Gallina model"]
    for cls, f in known.items():
        h = hits.get(f["id"], [])
        if h:
            res.known.append("%s %s [%d cases this run]" % (f["id"], f["what"], len(h)))
    for v in viol[:3]:
        res.violation("world", v)
    if not viol and (diffs or pr["broken"]):
        what = list(pr["broken"]) + (["link handling differs from Links.sync_link on %d histories; first: %r" % (len(diffs), diffs[0])] if diffs else [])
        res.violation("unproved", {"no_failing_input_found": True, "what_no_longer_checks": what}, no_input=True)
    return res.finish()


def replay(path):
    print(open(path).read()[:3000])
    return 0
