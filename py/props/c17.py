"""C17 -- symlinks and extended attributes are reproduced per the selected mode (and C02 via c02.py).
Theorems: coq/Properties/C17.v over Model/Links.v.  Tie: histories {create, re-sync, retarget, prior entry kinds}
per link kind x link mode through the real binary; readlink / kind of the destination entry after every run vs
Links.sync_link; source and sentinel snapshots; user xattrs with and without -X."""
import subprocess, json, os, shutil
import vlib, world
from common import proof_phase, TRUSTED_COMMON

PID = "C17"
KINDS = ["rel", "abs_src", "abs_out", "dangling", "dirlink", "chain", "abs_dir_src", "abs_dir_out"]


def build(base, r):
    src, dst, out = base + "/src", base + "/dst", base + "/outside"
    os.makedirs(src + "/d"); os.makedirs(src + "/d2"); os.makedirs(out + "/sub"); os.makedirs(dst)
    for name, data in (("t1.txt", b"one"), ("t2.txt", b"twotwo"), ("d/in.txt", b"inner")):
        with open(os.path.join(src, name), "wb") as f:
            f.write(data)
        os.utime(os.path.join(src, name), ns=((world.T0 + 100) * 10**9,) * 2)
    with open(out + "/o.txt", "wb") as f:
        f.write(b"outside")
    return src, dst, out


def target_of(kind, src, out, alt=False):
    if alt == "spelling":
        # the same referent, another TEXT (a trailing slash): the destination link must carry the new text
        return target_of(kind, src, out) + "/"
    return {"rel": "t2.txt" if alt else "t1.txt", "abs_src": src + ("/t2.txt" if alt else "/t1.txt"), "abs_out": out + "/o.txt",
            "dangling": "nowhere2" if alt else "nowhere", "dirlink": "d2" if alt else "d", "chain": "rel_helper",
            "abs_dir_src": src + ("/d2" if alt else "/d"), "abs_dir_out": out + ("/sub" if alt else "")}[kind]


def cwd_class(target, cwd, ids):
    p = target if os.path.isabs(target) else os.path.join(cwd, target)
    if not os.path.exists(p):
        return "m"
    if os.path.isdir(p):
        return "d"
    return "f%d" % ids.setdefault(world.sha(p), len(ids) + 1)


def dclass(path, tids, cids):
    if not os.path.lexists(path):
        return "a"
    if os.path.islink(path):
        return "l%d" % tids.setdefault(os.readlink(path), len(tids) + 1)
    if os.path.isdir(path):
        return "d"
    return "f%d" % cids.setdefault(world.sha(path), len(cids) + 1)


def ew_T0NS_local(i):
    import time
    return (int(time.time()) + 100 + i) * 10**9


def xattr_histories(sc, r, n):
    """one regular file, histories of attribute changes on either side, content changes and runs with / without -X, through the
    real binary; after every run the destination's content and user attributes are compared with Model/Xattr.v and judged
    against the statement.  -> (cases, observed, violations, stats)"""
    cases, observed, viol = [], [], []
    stats = {"runs_with_X": 0, "runs_without_X": 0, "skipped_runs": 0, "transfers_in_place": 0, "transfers_via_working_file": 0}
    env_old = dict(sc.env)
    sc.env["SY_VERIF_DELTA_THRESHOLD"] = "64"
    def uattrs(p):
        return {k: os.getxattr(p, k) for k in os.listxattr(p) if k.startswith("user.")}
    try:
        for i in range(n):
            base = os.path.join(sc.dir, "xa%d" % i)
            src, dst = base + "/src", base + "/dst"
            os.makedirs(src); os.makedirs(dst)
            big = (i % 3 == 2)                 # at least the (lowered) delta threshold: updates go through a working file + rename
            off = 200 if big else 10
            sf, df = src + "/f.dat", dst + "/f.dat"
            nextc = [1]
            stamp = [ew_T0NS_local(i)]
            def write():
                c = nextc[0]; nextc[0] += 1
                with open(sf, "wb") as fh:
                    fh.write(bytes([c]) * (off + c))
                stamp[0] += 7 * 10**9
                os.utime(sf, ns=(stamp[0], stamp[0]))
                return c
            c0 = write()
            ops = []
            for _ in range(r.randrange(3, 11)):
                ops.append(r.choice(["ss", "ss", "ss", "sd", "sd", "sw", "sw", "st", "st", "ds", "dd", "y", "y", "y"]))
            ops.append("y")
            toks = []
            outs = []
            for o in ops:
                k, v = r.randrange(1, 5), r.randrange(1, 10)
                if o == "ss":
                    os.setxattr(sf, "user.k%d" % k, str(v).encode()); toks.append("ss:%d:%d" % (k, v))
                elif o == "sd":
                    try:
                        os.removexattr(sf, "user.k%d" % k)
                    except OSError:
                        pass
                    toks.append("sd:%d" % k)
                elif o == "sw":
                    keep = uattrs(sf)
                    c = write()
                    for kk, vv in keep.items():
                        os.setxattr(sf, kk, vv)
                    toks.append("sw:%d" % c)
                elif o == "st":
                    # (seed C17-4) the time stamp moves, the bytes do not (touch, checkout, restore): the planner updates the file --
                    # a large one through a working file -- although no block differs
                    stamp[0] += 7 * 10**9
                    os.utime(sf, ns=(stamp[0], stamp[0]))
                    toks.append("st")
                elif o == "ds":
                    if os.path.isfile(df):
                        os.setxattr(df, "user.k%d" % k, str(v).encode())
                    toks.append("ds:%d:%d" % (k, v))
                elif o == "dd":
                    if os.path.isfile(df):
                        try:
                            os.removexattr(df, "user.k%d" % k)
                        except OSError:
                            pass
                    toks.append("dd:%d" % k)
                else:
                    x = r.random() < 0.6
                    before = uattrs(df) if os.path.isfile(df) else None
                    bsha = world.sha(df) if os.path.isfile(df) else None
                    rr = world.run_sy([src, dst, "-j1", "-q"] + (["-X"] if x else []), sc)
                    toks.append("y:%d:%d" % (1 if x else 0, 1 if big else 0))
                    stats["runs_with_X" if x else "runs_without_X"] += 1
                    if not os.path.isfile(df):
                        outs.append("absent")
                        viol.append({"world": "xattr-%d" % i, "history": ",".join(toks), "why": "the run did not create the destination file (rc=%s)" % rr["rc"], "prop": "C17"})
                        continue
                    after = uattrs(df)
                    transferred = (bsha != world.sha(df))
                    if transferred and before is not None:
                        stats["transfers_via_working_file" if big else "transfers_in_place"] += 1
                    if not transferred:
                        stats["skipped_runs"] += 1
                    sz = os.path.getsize(df)
                    outs.append("c=%d a=%s" % (sz - off, ";".join("%s:%s" % (kk[6:], vv.decode()) for kk, vv in sorted(after.items()))))
                    want = uattrs(sf)
                    if world.sha(df) != world.sha(sf):
                        viol.append({"world": "xattr-%d" % i, "history": ",".join(toks), "why": "destination content differs from the source after the run", "prop": "C17"})
                    if x and after != want:
                        viol.append({"world": "xattr-%d" % i, "history": ",".join(toks), "prop": "C17",
                                     "why": "-X given but the destination's user attributes %r differ from the source's %r (file %s)" % (
                                         sorted(after.items()), sorted(want.items()), "transferred" if transferred else "skipped as up to date")})
                    if not x:
                        new = {kk: vv for kk, vv in after.items() if before is None or transferred or before.get(kk) != vv}
                        if new:
                            viol.append({"world": "xattr-%d" % i, "history": ",".join(toks), "prop": "C17",
                                         "why": "-X not given but user attributes %r appeared on the destination" % sorted(new.items())})
            cases.append("XA %d %s" % (c0, ",".join(toks)))
            observed.append(" | ".join(outs))
            # (round 4) the attributes differ and the destination file does not take attribute changes (immutable): with -X that is a
            # failure of the run, not a warning
            if i % 8 == 1 and os.path.isfile(df):
                os.setxattr(sf, "user.late", b"%d" % i)
                if subprocess.run(["chattr", "+i", df], stderr=subprocess.DEVNULL).returncode == 0:
                    try:
                        rr = world.run_sy([src, dst, "-j1", "-q", "-X"], sc)
                    finally:
                        subprocess.run(["chattr", "-i", df])
                    stats["immutable_destination_runs"] = stats.get("immutable_destination_runs", 0) + 1
                    if rr["rc"] == 0 and uattrs(df) != uattrs(sf):
                        viol.append({"world": "xattr-%d" % i, "history": ",".join(toks) + ",<destination immutable>,y:1", "prop": "C17",
                                     "why": "-X given, the destination's attributes %r differ from the source's %r after the run (the file is immutable: setxattr fails) and the exit status is 0" % (sorted(uattrs(df).items()), sorted(uattrs(sf).items()))})
            shutil.rmtree(base, ignore_errors=True)
    finally:
        sc.env.clear(); sc.env.update(env_old)
    return cases, observed, viol, stats



def run(tier, seed, pid=PID):
    copies_of_referent = 0
    res = vlib.Result(pid, tier, seed)
    pr = proof_phase(res, pid)
    okm, outm = vlib.build_model()
    oki, outi, _ = vlib.build_impl()
    if not (okm and oki):
        res.violation("build", "build failed:\n" + (outi if not oki else outm)[-3000:], no_input=True)
        return res.finish()
    known = {f["class"]: f for f in vlib.load_known()["findings"] if f["property"] == pid}
    r = vlib.rng_for(seed, pid)
    n = 40 if tier == "quick" else 400
    diffs, viol, hits, nontriv, samples = [], [], {}, set(), []
    cases, observed = [], []
    with vlib.Scratch() as sc:
        for i in range(n):
            base = os.path.join(sc.dir, "w%d" % i)
            src, dst, out = build(base, r)
            mode = r.choice(["preserve", "preserve", "follow", "skip"])
            kind = KINDS[i % len(KINDS)]
            forced = (i % 10 == 9 and pid != "C02")      # relative and chained links in follow mode, started outside the link's directory (the class fixed by 93de336), on every run
            if forced:
                mode, kind = "follow", ("rel" if i % 20 == 9 else "chain")
            if kind == "chain":
                os.symlink("t1.txt", src + "/rel_helper")
            tids, cids = {}, {}
            lpath, dpath = src + "/lnk", dst + "/lnk"
            # prior destination entry
            prior = r.choice(["absent", "absent", "samelink", "otherlink", "file", "dir"])
            if forced:
                prior = "absent"
            if prior == "samelink":
                os.symlink(target_of(kind, src, out), dpath)
            elif prior == "otherlink":
                os.symlink(r.choice(["elsewhere", out + "/o.txt", src + "/t2.txt", out, "."]), dpath)   # incl. links that resolve to a directory
            elif prior == "file":
                open(dpath, "w").write("user file")
            elif prior == "dir":
                os.makedirs(dpath)
            dinit = dclass(dpath, tids, cids)
            cwd = r.choice([sc.dir, src])
            if forced:
                cwd = sc.dir
            steps, outs = [], []
            nruns = r.randrange(1, 4) if pid != "C02" else r.randrange(2, 4)
            b_src = b_out = None
            wrote_outside = False
            for k in range(nruns):
                alt = (k == nruns - 1 and nruns > 1 and r.random() < 0.5)
                if alt and r.random() < 0.35:
                    alt = "spelling"
                if os.path.lexists(lpath):
                    if os.path.isdir(lpath) and not os.path.islink(lpath):
                        shutil.rmtree(lpath)
                    else:
                        os.remove(lpath)
                # the KIND of the source entry may change between runs: the link becomes a regular file or a real directory
                ekind = "link"
                if k >= 1 and not forced and r.random() < 0.35:
                    ekind = r.choice(["file", "dir"])
                if ekind == "file":
                    with open(lpath, "wb") as fh:
                        fh.write(("regular file now, run %d of world %d" % (k, i)).encode() + b"." * k)
                    # (two such files written within one second would have equal sizes and time stamps within the planner's tolerance)
                    os.utime(lpath, ns=((world.T0 + 5000 + 100 * k) * 10**9,) * 2)
                    # (27a4e7f) ... or the link is replaced by a COPY of what it pointed to (cp -p: same bytes, size and time stamp):
                    # seen through the link the destination left by the earlier run, the entry looks up to date
                    prev_t = locals().get("tgt")
                    if prev_t and r.random() < 0.6:
                        ref = prev_t if os.path.isabs(prev_t) else os.path.join(os.path.dirname(lpath), prev_t)
                        if os.path.isfile(ref) and not os.path.islink(ref):
                            subprocess.run(["cp", "-p", ref, lpath], check=True)
                            copies_of_referent += 1
                    steps.append("F%d" % cids.setdefault(world.sha(lpath), len(cids) + 1))
                    tgt = None
                elif ekind == "dir":
                    os.makedirs(lpath)
                    with open(lpath + "/child.txt", "wb") as fh:
                        fh.write(b"child of the real directory")
                    steps.append("D")
                    tgt = None
                else:
                    tgt = target_of(kind, src, out, alt)
                    os.symlink(tgt, lpath)
                    t_id = tids.setdefault(tgt, len(tids) + 1)
                    steps.append("%d:%s" % (t_id, cwd_class(tgt, src, cids)))      # resolution from the directory that holds the link
                xargs = ["-X"] if i % 3 == 0 else []
                if i % 3 == 0 and os.path.isfile(src + "/t1.txt"):
                    os.setxattr(src + "/t1.txt", "user.note", b"hello")
                b_src, b_out = world.snapshot(src), world.snapshot(out)
                if pid == "C02" and k >= 1:
                    xargs = xargs + r.choice([["--delete", "--force-delete"], ["--delete", "--force-delete"], ["--dry-run", "--delete"], ["--verify-only"], []])
                rr = world.run_sy([src, dst, "--links", mode, "-j1", "-q"] + xargs, sc, cwd=cwd)
                a_src, a_out = world.snapshot(src), world.snapshot(out)
                ch = [("src", p) for p in world.diff_snap(b_src, a_src)] + [("outside", p) for p in world.diff_snap(b_out, a_out)]
                if ch:
                    wrote_outside = True
                    viol.append({"world": i, "mode": mode, "kind": kind, "prior": prior, "run": k + 1, "why": "the run modified %r" % ch[:4], "prop": "C02"})
                    if any(w_ == "src" for w_, _p in ch):
                        break                  # the world's source is no longer what the history says: nothing further to learn from it
                outs.append(dclass(dpath, tids, cids))
                if pid == "C02":
                    continue
                if ekind == "file" and not os.path.isdir(dpath) and not (os.path.isfile(dpath) and not os.path.islink(dpath) and world.sha(dpath) == world.sha(lpath)):
                    viol.append({"world": i, "mode": mode, "kind": kind, "prior": prior, "run": k + 1, "why": "the source entry became a regular file but the destination entry is not that file (found %s)" % outs[-1], "prop": "C17"})
                if ekind == "dir" and not (os.path.isfile(dpath) and not os.path.islink(dpath)) and not (os.path.isdir(dpath) and not os.path.islink(dpath) and os.path.isfile(dpath + "/child.txt")):
                    viol.append({"world": i, "mode": mode, "kind": kind, "prior": prior, "run": k + 1, "why": "the source entry became a real directory but the destination entry is not a directory holding its child (found %s)" % outs[-1], "prop": "C17"})
                if ekind != "link":
                    continue
                # statement-level oracle (C17); what was at the path before THIS run (earlier runs of the history may have put a
                # regular file or a real directory there)
                prev = outs[-2] if len(outs) > 1 else dinit
                if mode == "preserve" and prior != "dir" and prev != "d":
                    if not (os.path.islink(dpath) and os.readlink(dpath) == tgt):
                        viol.append({"world": i, "mode": mode, "kind": kind, "prior": prior, "run": k + 1, "why": "preserve mode: destination is not the symlink %r (found %s)" % (tgt, outs[-1]), "prop": "C17"})
                if mode == "skip" and prior == "absent" and prev == "a" and os.path.lexists(dpath):
                    viol.append({"world": i, "mode": mode, "kind": kind, "run": k + 1, "why": "skip mode created something", "prop": "C17"})
                if mode == "follow" and prior in ("absent", "file", "otherlink") and prev != "d" and kind in ("rel", "abs_src", "abs_out", "chain"):
                    # resolved as the kernel resolves it (os.path.realpath would drop a trailing slash: `o.txt/` does not resolve)
                    real = lpath
                    good = os.path.isfile(dpath) and not os.path.islink(dpath) and os.path.isfile(real) and world.sha(dpath) == world.sha(real)
                    if not good and os.path.isfile(real):
                        rel = not os.path.isabs(tgt)
                        f = {"world": i, "mode": mode, "kind": kind, "prior": prior, "run": k + 1, "cwd_is_src": cwd == src,
                             "why": "follow mode: destination is not a regular copy of the linked file (found %s)" % outs[-1], "prop": "C17",
                             "klass": None}
                        if f["klass"] in known:
                            hits.setdefault(known[f["klass"]]["id"], []).append(f)
                        else:
                            viol.append(f)
                if i % 3 == 0 and os.path.isfile(dst + "/t1.txt"):
                    xs = os.listxattr(dst + "/t1.txt")
                    if "user.note" not in xs:
                        viol.append({"world": i, "why": "-X given but user.note missing on the destination file", "prop": "C17"})
                elif os.path.isfile(dst + "/t1.txt") and os.listxattr(dst + "/t1.txt"):
                    viol.append({"world": i, "why": "xattrs present on the destination although -X was not given", "prop": "C17"})
            cases.append("LK %s %s %s" % (mode, dinit, ",".join(steps)))
            observed.append(",".join(outs))
            nontriv.add((mode, kind, prior, nruns))
            if len(samples) < 3:
                samples.append({"mode": mode, "kind": kind, "prior": prior, "case": cases[-1], "observed": observed[-1]})
        if pid == "C02":
            # (6bd7769) a source symlink that carries the NAME of a working file (<big>.sy.tmp) and points back into the source tree /
            # to the sentinel outside: preserved by run 1; run 2 updates <big> (at the gate: working file + rename) -- nothing of the
            # source or the sentinel may change
            env_old = dict(sc.env); sc.env["SY_VERIF_DELTA_THRESHOLD"] = "65536"
            for wi in range(2 if tier == "quick" else 8):
                base = os.path.join(sc.dir, "wn%d" % wi)
                src, dst, out = base + "/src", base + "/dst", base + "/out"
                os.makedirs(src + "/sub"); os.makedirs(dst); os.makedirs(out)
                open(src + "/other.txt", "w").write("a file of the source"); open(out + "/sentinel.txt", "w").write("outside both roots")
                bigp = src + ("/big.bin" if wi % 2 == 0 else "/sub/big.bin")
                with open(bigp, "wb") as fh:
                    fh.write(world.pbytes(6100 + wi, 200000))
                os.utime(bigp, ns=((world.T0 + 100) * 10**9,) * 2)
                os.symlink(src + "/other.txt" if wi % 4 < 2 else out + "/sentinel.txt", bigp + ".sy.tmp")
                world.run_sy([src, dst, "-q", "-j1"], sc)
                with open(bigp, "wb") as fh:
                    fh.write(world.pbytes(6200 + wi, 210000))
                os.utime(bigp, ns=((world.T0 + 900) * 10**9,) * 2)
                b_src, b_out = world.snapshot(src), world.snapshot(out)
                rr = world.run_sy([src, dst, "-q", "-j%d" % [1, 4][wi % 2]], sc)
                ch = [("src", p) for p in world.diff_snap(b_src, world.snapshot(src))] + [("outside", p) for p in world.diff_snap(b_out, world.snapshot(out))]
                if ch:
                    viol.append({"world": "working-name-link-%d" % wi, "why": "a symbolic link named like the working file of a large destination (%s.sy.tmp): the update of that file modified %r" % (os.path.basename(bigp), ch[:4]), "prop": "C02"})
                shutil.rmtree(base, ignore_errors=True)
            sc.env.clear(); sc.env.update(env_old)
            # (seed C02-1, masked in the older worlds by repair 4dbf5f3) a STALE symbolic link in the destination -- no counterpart in the
            # source -- that points to a directory of the source / of the sentinel: --delete removes the link, never what it points to
            for wi in range(2 if tier == "quick" else 6):
                base = os.path.join(sc.dir, "sl%d" % wi)
                src, dst, out = base + "/src", base + "/dst", base + "/out"
                os.makedirs(src + "/sub/deep"); os.makedirs(dst); os.makedirs(out + "/keep")
                for p_ in (src + "/sub/a.txt", src + "/sub/deep/b.txt", src + "/top.txt", out + "/keep/sentinel.txt"):
                    open(p_, "w").write("content of " + os.path.basename(p_))
                world.run_sy([src, dst, "-q"], sc)
                os.symlink(src + "/sub" if wi % 2 == 0 else out + "/keep", dst + "/old_link")
                os.symlink("../src/sub" if wi % 2 == 0 else "../out/keep", dst + "/old_rel_link")
                b_src, b_out = world.snapshot(src), world.snapshot(out)
                rr = world.run_sy([src, dst, "-q", "--delete", "--force-delete", "-j%d" % [1, 4][wi % 2]], sc)
                ch = [("src", p) for p in world.diff_snap(b_src, world.snapshot(src))] + [("outside", p) for p in world.diff_snap(b_out, world.snapshot(out))]
                if ch:
                    viol.append({"world": "stale-dir-link-%d" % wi, "why": "--delete over a stale destination symlink that points to a directory %s: the run modified %r" % ("of the source" if wi % 2 == 0 else "outside both roots", ch[:4]), "prop": "C02"})
                shutil.rmtree(base, ignore_errors=True)
        xa_cases, xa_obs, xa_stats = [], [], {}
        if pid == "C17":
            xa_cases, xa_obs, xa_viol, xa_stats = xattr_histories(sc, vlib.rng_for(seed, "C17-xattr"), 40 if tier == "quick" else 500)
            viol += xa_viol
    for c, o, m in zip(xa_cases, xa_obs, vlib.run_model(xa_cases) if xa_cases else []):
        if o != m:
            diffs.append({"case": c, "impl": o, "model": m})
    res.cov["kind_changes_to_a_copy_of_the_referent"] = copies_of_referent
    res.cov["xattr_histories"] = dict(xa_stats, histories=len(xa_cases))
    model = vlib.run_model(cases)
    for c, o, m in zip(cases, observed, model):
        if pid == "C02":
            if "!" in m:
                viol.append({"case": c, "why": "the model itself writes through a destination link", "prop": "C02"})
            continue
        if o != m.replace("!", ""):
            diffs.append({"case": c, "impl": o, "model": m})
        if "!" in m:
            viol.append({"case": c, "why": "the model itself writes through a destination link", "prop": "C02"})
    if pid == "C02":
        viol = [v for v in viol if v.get("prop") == "C02"]
    else:
        viol = [v for v in viol if v.get("prop") != "C02"]
    res.cov["evaluations"] = len(cases) + len(xa_cases)
    res.cov["distinct_nontrivial"] = len(nontriv)
    res.cov["model_impl_disagreements"] = len(diffs)
    res.cov["known_finding_hits"] = {k: len(v) for k, v in hits.items()}
    res.cov["rule"] = ("link kinds %r x modes preserve/follow/skip x prior destination entry (absent, same link, other link incl. into the source / a sentinel, regular file, directory) x 1-3 runs "
                       "with an optional retarget before the last run x working directory (scratch root or the source root); every third world with -X and a user xattr; "
                       "distinct = distinct (mode, kind, prior, runs)" % (KINDS,))
    res.cov["samples"] = samples
    res.cov["trusted_base"] = TRUSTED_COMMON + ["kernel symlink semantics (symlink(2) EEXIST, fs::copy follows a destination link, remove_file removes the link itself)",
                                                 "xattr(7) system calls as a finite map per inode (rename replaces the inode, fs::copy onto an existing file keeps it); only the user.* namespace is observed"]
    for cls, f in known.items():
        h = hits.get(f["id"], [])
        if h:
            res.known.append("%s %s [%d cases this run]" % (f["id"], f["what"], len(h)))
    for v in viol[:3]:
        res.violation("world", v)
    if not viol and (diffs or pr["broken"]):
        what = list(pr["broken"]) + (["link handling differs from Links.sync_link on %d histories; first: %r" % (len(diffs), diffs[0])] if diffs else [])
        res.violation("unproved", {"no_failing_input_found": True, "what_no_longer_checks": what}, no_input=True)
    return res.finish()


def replay(path):
    print(open(path).read()[:3000])
    return 0
