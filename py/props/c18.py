"""C18 -- caches and databases never change the outcome.
Theorems: coq/Properties/C18.v over Model/Caches.v.
Tie: (1) ChecksumDatabase store/get and DirectoryCache update/needs_rescan vs Caches.db_store/db_lookup and
dc_update/dc_dir_mtime on generated operation sequences (exact-match key semantics, 1 s directory tolerance);
(2) twin worlds through the real binary: the same history of source edits (create, modify with another size, modify
with equal size and a later or EARLIER mtime, delete, rename, directory <-> file) synced step by step into two
destinations, one plain and one with --use-cache / --checksum-db / --resume and whatever files its earlier steps left
(optionally damaged: truncated, garbage, other version); each run is also compared with Engine.run; (3) every cache
file a run leaves is inspected for the invariant the theorem uses (no "." entry).
Oracle: after every step the two destinations are equal minus sy's own metadata files."""
import json, os, datetime, shutil, subprocess
import vlib, world, engine_world as ew
from common import proof_phase, TRUSTED_COMMON

PID = "C18"
NS = 10**9
META = (".sy-dir-cache.json", ".sy-checksums.db", ".sy-state.json", ".sy-checksums.db-journal", ".sy-checksums.db-wal", ".sy-checksums.db-shm", ".sy-state.json.tmp")


def is_meta(rel):
    return os.path.basename(rel) in META


# ------------------------------------------------------------------ API-level correspondence
def api_cases(r, n):
    cases = []
    for _ in range(n):
        ops = []
        base = r.randrange(5, 9) * 10**9 if r.random() < 0.75 else -r.randrange(5, 9) * 10**9     # a quarter of the cases: time stamps before 1970
        odd_names = r.random() < 0.3      # (O5 of seed C18-4's notes) names that are not valid UTF-8, equal in their lossy form
        for _ in range(r.randrange(2, 12)):
            p = r.randrange(1, 4) + (99 if odd_names else 0)
            mt = base + r.choice([0, 0, 1, -1, 10**9, -10**9, 5 * 10**8, 2 * 10**9])
            sz = r.choice([5, 5, 6, 0])
            if r.random() < 0.45:
                ops.append("s:%d:%d:%d:%d" % (p, mt, sz, r.randrange(1, 50)))
            else:
                ops.append("g:%d:%d:%d" % (p, mt, sz))
        cases.append(("DB", ",".join(ops)))
    for _ in range(n // 2):
        ops = []
        base = r.randrange(5, 9) * 10**9
        for _ in range(r.randrange(2, 10)):
            p = r.randrange(0, 3)
            mt = base + r.choice([0, 10**9, -10**9, 1999999999, 2 * 10**9, -2 * 10**9, 3 * 10**9, 999999999])
            ops.append(("u:%d:%d" if r.random() < 0.4 else "q:%d:%d") % (p, mt))
        cases.append(("DC", ",".join(ops)))
    return cases


# ------------------------------------------------------------------ histories
def edit_source(r, src, state, force=None, force_on=None, only=None):
    """one burst of edits; every edit changes size or mtime of what it touches (the property's premise).
    state: rel -> (seed, size, mt_ns) of regular files"""
    log = []
    files = sorted(k for k in state if not k.startswith("\0"))
    versions = state.setdefault("\0versions", {})      # (path, size, mtime) -> content seed of every version a path ever had

    def fresh_mt(rel, size, mt, step):
        return mt if mt > 0 else 10 * NS
    kinds = [r.choice(["create", "modsize", "samesize_later", "samesize_earlier", "samesize_subsecond", "delete", "rename", "dir2file", "file2dir", "create"]) for _ in range(r.randrange(1, 4))]
    if only is not None:
        kinds = list(only)          # a calm history: exactly these edits
    if force and files:
        kinds.append(force)
    for kind in kinds:
        if kind == "create" or not files:
            d = r.choice(["", "", "a", "a/b", "c"])
            rel = (d + "/" if d else "") + r.choice(["n1", "n2.txt", "n3.bin", "x y", "ü"])
            if rel in state or os.path.isdir(os.path.join(src, rel)) or any(os.path.isfile(os.path.join(src, *rel.split("/")[:i])) for i in range(1, len(rel.split("/")))):
                continue
            state[rel] = (r.randrange(1 << 30), r.choice([0, 7, 5000, 70000]), fresh_mt(rel, None, r.randrange(3_000_000, 5_000_000) * NS, 0))
            log.append(("create", rel))
        elif kind in ("modsize", "samesize_later", "samesize_earlier", "samesize_subsecond", "samesize_ancient"):
            pool = [f for f in files if f in force_on] if (force_on and kind == force and kind is kinds[-1]) else files
            if kind == "samesize_ancient":
                # a file whose time stamp lies before 1970 (restored from an old archive) and moves to another one there
                pool = [f for f in files if state[f][2] < -ew.T0NS] or files
            rel = r.choice(pool or files)
            if rel not in state:
                continue
            seed, size, mt = state[rel]
            if kind == "modsize":
                nsz = size + r.choice([1, 100, 4096])
                state[rel] = (r.randrange(1 << 30), nsz, fresh_mt(rel, nsz, mt + r.choice([0, 5 * NS]), +NS))
            elif kind == "samesize_subsecond":
                # same size, same whole second, another nanosecond part (and other bytes): still another (mtime, size)
                state[rel] = (r.randrange(1 << 30), size, mt - mt % NS + (mt % NS + r.choice([1, 1000, 250_000_000, 499_999_999])) % NS)
            elif kind == "samesize_ancient":
                state[rel] = (r.randrange(1 << 30), size, -ew.T0NS - r.randrange(1, 4000) * 86400 * NS - r.choice([0, 250_000_000]))
            elif kind == "samesize_later":
                state[rel] = (r.randrange(1 << 30), size, fresh_mt(rel, size, mt + r.choice([2 * NS, 86400 * NS]), +NS))
            else:
                state[rel] = (r.randrange(1 << 30), size, fresh_mt(rel, size, mt - r.choice([2 * NS, 86400 * NS]), -NS))
            log.append((kind, rel))
        elif kind == "delete":
            rel = r.choice(files)
            state.pop(rel, None)
            log.append(("delete", rel))
        elif kind == "rename":
            rel = r.choice(files)
            new = rel + ".moved"
            if rel in state and new not in state:
                state[new] = state.pop(rel)
                log.append(("rename", rel))
        elif kind == "dir2file":
            ds = sorted({os.path.dirname(p) for p in state if os.path.dirname(p)})
            if ds:
                d = r.choice(ds)
                for p in [p for p in state if p == d or p.startswith(d + "/")]:
                    state.pop(p)
                state[d] = (r.randrange(1 << 30), 33, r.randrange(1000, 5000) * NS)
                log.append(("dir2file", d))
        elif kind == "file2dir":
            rel = r.choice(files)
            if rel in state:
                state.pop(rel)
                state[rel + "/inner.txt"] = (r.randrange(1 << 30), 12, r.randrange(1000, 5000) * NS)
                log.append(("file2dir", rel))
        files = sorted(k for k in state if not k.startswith("\0"))
    # materialise
    shutil.rmtree(src, ignore_errors=True)
    os.makedirs(src)
    # the property's premise, globally: no two different versions of a path share mtime AND size (going back to an earlier
    # (mtime, size) with other content is the undetectable case the premise excludes) -- enforced here for every kind of edit
    for rel in [k for k in state if not k.startswith("\0")]:
        seed, size, mt = state[rel]
        while versions.get((rel, size, mt), seed) != seed:
            mt += NS
        versions[(rel, size, mt)] = seed
        state[rel] = (seed, size, mt)
    # keep the tree well-formed whatever the edits did: a path below a regular file is dropped
    names = sorted(k for k in state if not k.startswith("\0"))
    for rel in names:
        parts = rel.split("/")
        if any("/".join(parts[:i]) in state for i in range(1, len(parts))):
            state.pop(rel, None)
    real = {k: v for k, v in state.items() if not k.startswith("\0")}
    for rel, (seed, size, mt) in sorted(real.items()):
        p = os.path.join(src, rel)
        os.makedirs(os.path.dirname(p), exist_ok=True)
        with open(p, "wb") as f:
            f.write(world.pbytes(seed, size)); f.flush(); os.fsync(f.fileno())
    for rel, (seed, size, mt) in real.items():
        os.utime(os.path.join(src, rel), ns=(ew.T0NS + mt, ew.T0NS + mt))
    for dp, dns, fns in os.walk(src, topdown=False):
        os.utime(dp, ns=(ew.T0NS + 10 * NS, ew.T0NS + 10 * NS))      # directory mtimes do NOT move with the edits (worst case for a directory cache)
    world.sync_fs()
    return log


def damage_sqlite(p, how):
    """structured damage of the checksum database: the file stays a valid SQLite database that ChecksumDatabase::open accepts"""
    import sqlite3
    try:
        con = sqlite3.connect(p)
        if how == "old-schema":      # the table of an earlier version: no mtime_nanos column (updated_at is there, so the index can be created)
            rows = con.execute("SELECT path, mtime_secs, size, checksum_type, checksum, updated_at FROM checksums").fetchall()
            con.execute("DROP TABLE checksums")
            con.execute("CREATE TABLE checksums (path TEXT PRIMARY KEY, mtime_secs INTEGER NOT NULL, size INTEGER NOT NULL, "
                        "checksum_type TEXT NOT NULL, checksum BLOB NOT NULL, updated_at INTEGER NOT NULL)")
            con.executemany("INSERT INTO checksums VALUES (?,?,?,?,?,?)", rows)
        elif how == "bad-type":      # every stored checksum is a TEXT value (row.get::<Vec<u8>> fails)
            con.execute("UPDATE checksums SET checksum = 'not a blob'")
        else:                        # checksum_type holds an integer
            con.execute("UPDATE checksums SET checksum_type = 7")
        con.commit(); con.close()
        return True
    except Exception:
        return False


def damage(r, dst):
    done = []
    for name in (".sy-dir-cache.json", ".sy-checksums.db", ".sy-state.json"):
        p = os.path.join(dst, name)
        if os.path.exists(p) and r.random() < 0.5:
            how = r.choice(["truncate", "garbage", "version"])
            if name == ".sy-checksums.db" and r.random() < 0.6:
                # a database that still OPENS but whose table cannot be queried (seed C18-4): an older schema, a row of the wrong type
                how = r.choice(["old-schema", "bad-type", "bad-kind"])
                if damage_sqlite(p, how):
                    done.append((name, how))
                    continue
                how = "garbage"
            data = open(p, "rb").read()
            if how == "truncate":
                data = data[:len(data) // 2]
            elif how == "garbage":
                data = b"\x00\xffnot a cache\n" * 3
            else:
                data = data.replace(b'"version":2', b'"version":99').replace(b'"version": 2', b'"version": 99').replace(b'"version":1', b'"version":7')
            with open(p, "wb") as f:
                f.write(data)
            done.append((name, how))
    return done


AUX_SETS = [("cache", ["--use-cache=true"], []), ("db", ["--checksum", "--checksum-db=true"], ["--checksum"]), ("resume", ["--resume=true"], ["--resume=false"]),
            ("cache+delete", ["--use-cache=true"], []), ("db+delete", ["--checksum", "--checksum-db=true"], ["--checksum"]), ("all", ["--use-cache=true", "--checksum", "--checksum-db=true"], ["--checksum"]),
            ("state", ["--resume=true"], ["--resume=false"]),
            # seed C18-4: the database of every later step still opens but its table cannot be queried (older schema, rows of the wrong type)
            ("db-damaged", ["--checksum", "--checksum-db=true"], ["--checksum"]),
            # (seed C18-3, masked in default mode by repair 80a4f7d) resume next to a content-comparing mode: a same-size edit within the
            # planner's second is an update for --checksum, with or without a state file that lists the path
            ("state-ck", ["--resume=true", "--checksum"], ["--resume=false", "--checksum"])]


def still_same(src, dst, rel):
    """Caches.plan_resume after the repair: a path listed as completed is skipped only while the source file still has the recorded size and checksum"""
    a, b = os.path.join(src, rel), os.path.join(dst, rel)
    # ... and (`fix: resume skips a completed path only while the destination still holds it`) the destination file has the source's
    # size and time stamp within the planner's second
    return (os.path.isfile(a) and os.path.isfile(b) and not os.path.islink(b) and os.path.getsize(a) == os.path.getsize(b) and world.sha(a) == world.sha(b)
            and abs(os.stat(a).st_mtime_ns - os.stat(b).st_mtime_ns) // 10**9 <= 1)


def strip(snap):
    return {k: v for k, v in snap.items() if not is_meta(k)}


def filter_line(line, ids, metas):
    """drop sy's metadata files from an observation / model line"""
    mids = {ids.path(m) for m in metas}
    kv = dict(x.split("=", 1) for x in line.split(" "))
    def keep(item):
        parts = item.split(":")
        return not any(p in mids for p in parts[1:2])
    kv["dst"] = ",".join(i for i in kv["dst"].split(",") if i == "-" or keep(i)) or "-"
    kv["evs"] = ",".join(i for i in kv["evs"].split(",") if i == "-" or i.split(":")[1] not in mids) or "-"
    return " ".join("%s=%s" % (k, kv[k]) for k in ("refused", "exit", "nerr", "evs", "dst"))


def resume_kind_change_worlds(sc, stats):
    """(2e37b75) a source entry that used to be a symbolic link and is a directory / a regular file now, with a state file that lists it as
    completed: resume must not take the link the earlier run left in the destination for the completed entry (the directory's
    entries were written through it).  Twins: --resume=false vs --resume=true over the same trees."""
    viol = []
    for wi, kind in enumerate(["dir", "file", "dir-delete"]):
        base = os.path.join(sc.dir, "rk%d" % wi)
        src = base + "/src"
        os.makedirs(src + "/real")
        with open(src + "/real/r", "wb") as f:
            f.write(b"referent\n")
        os.utime(src + "/real/r", ns=(ew.T0NS + 50 * NS,) * 2)
        os.symlink("real" if kind.startswith("dir") else "real/r", src + "/d")
        twins = {"plain": (base + "/dst_plain", ["--resume=false"]), "aux": (base + "/dst_aux", ["--resume=true"])}
        extra = ["--delete", "--force-delete"] if kind == "dir-delete" else []
        for _n, (dst, _fl) in twins.items():
            os.makedirs(dst)
            world.run_sy([src, dst, "--resume=false", "-q"], sc)
        os.remove(src + "/d")
        if kind.startswith("dir"):
            os.makedirs(src + "/d")
            with open(src + "/d/x", "wb") as f:
                f.write(b"new entry of the directory\n")
        else:
            subprocess.run(["cp", "-p", src + "/real/r", src + "/d"], check=True)
        world.sync_fs()
        vlib.run_sharded([os.path.join(vlib.BIN, "h_cache")], ["RS %s %d %s %s" % (twins["aux"][0].encode().hex(), 1 if extra else 0, "d".encode().hex(),
                                                                      datetime.datetime.now(datetime.timezone.utc).isoformat())], shards=1)
        snaps = {}
        for n, (dst, fl) in twins.items():
            rr = world.run_sy([src, dst, "-q"] + fl + extra, sc)
            snaps[n] = (rr["rc"], {k: (v["kind"], v.get("sha"), v.get("target")) for k, v in world.snapshot(dst).items() if not is_meta(k)})
        stats["resume_kind_change_worlds"] = stats.get("resume_kind_change_worlds", 0) + 1
        if snaps["plain"] != snaps["aux"]:
            d = sorted(k for k in set(snaps["plain"][1]) | set(snaps["aux"][1]) if snaps["plain"][1].get(k) != snaps["aux"][1].get(k))
            viol.append({"history": "resume-kind-change-%s" % kind, "step": 2, "aux": "state", "why": "a source entry turned from a symbolic link into a %s and the state file lists it as completed: the destination with --resume differs from the one without at %r (exit %s vs %s)"
                         % (kind, d[:5], snaps["aux"][0], snaps["plain"][0]), "plain": snaps["plain"][1].get(d[0]) if d else None, "with_resume": snaps["aux"][1].get(d[0]) if d else None})
        shutil.rmtree(base, ignore_errors=True)
    return viol


def lossy_names_world(sc, stats):
    """(6a0ee41) two names that are not valid UTF-8 and differ only in the invalid byte; both files are edited (same size) and each gets the
    time stamp the OTHER had when the database rows were written: with lossy keys one of them found the other's row and was skipped"""
    viol = []
    base = os.path.join(sc.dir, "lossy").encode()
    src = base + b"/src"
    os.makedirs(src)
    names = [b"n\xfe.bin", b"n\xff.bin"]
    stamps = [ew.T0NS + 1 * NS, ew.T0NS + 5 * NS]
    for nm, st in zip(names, stamps):
        with open(os.path.join(src, nm), "wb") as f:
            f.write(b"SAME")
        os.utime(os.path.join(src, nm), ns=(st, st))
    twins = {"plain": (base + b"/dst_plain", [b"--checksum"]), "aux": (base + b"/dst_aux", [b"--checksum", b"--checksum-db=true"])}
    env = dict(os.environ); env.update(sc.env)
    for _n, (dst, fl) in twins.items():
        os.makedirs(dst)
        subprocess.run([world.SY.encode(), src, dst, b"-q"] + fl, env=env, stdout=subprocess.PIPE, stderr=subprocess.PIPE, timeout=60)
    for nm, st in zip(names, reversed(stamps)):
        with open(os.path.join(src, nm), "wb") as f:
            f.write(b"EDIT")
        os.utime(os.path.join(src, nm), ns=(st, st))
    world.sync_fs()
    out = {}
    for n, (dst, fl) in twins.items():
        p = subprocess.run([world.SY.encode(), src, dst, b"-q"] + fl, env=env, stdout=subprocess.PIPE, stderr=subprocess.PIPE, timeout=60)
        out[n] = (p.returncode, {nm: open(os.path.join(dst, nm), "rb").read() if os.path.isfile(os.path.join(dst, nm)) else None for nm in names})
    stats["lossy_name_worlds"] = stats.get("lossy_name_worlds", 0) + 1
    if out["plain"] != out["aux"]:
        viol.append({"history": "lossy-names", "step": 2, "aux": "db", "why": "two names that differ only in a byte that is not valid UTF-8, both edited (same size, time stamps exchanged): with the checksum database the destination ends as %r (exit %s), without as %r (exit %s)"
                     % ({k.decode("latin1"): v for k, v in out["aux"][1].items()}, out["aux"][0], {k.decode("latin1"): v for k, v in out["plain"][1].items()}, out["plain"][0])})
    shutil.rmtree(base, ignore_errors=True)
    return viol


def run_history(sc, seed, i, known, stats):
    r = vlib.rng_for(seed, "C18-h%d" % i)
    name, aux, plain = AUX_SETS[i % len(AUX_SETS)]
    base = os.path.join(sc.dir, "h%d" % i)
    src, da, db = base + "/src", base + "/dst_plain", base + "/dst_aux"
    os.makedirs(da); os.makedirs(db)
    state = {}
    viol, hits, diffs, cases, obs = [], {}, [], [], []
    steps = r.randrange(3, 6)
    use_delete = "delete" in name or (r.random() < 0.25 and name in ("cache", "resume", "state", "state-ck"))   # a --delete run removes its own database (KF1): plain db histories keep it
    thr = r.choice([50, 100, 30])
    history = []
    for k in range(1, steps + 1):
        # database histories always contain an older same-size version put back (the lookup key must be exact)
        synced = [p for p in state if not p.startswith("\0") and os.path.isfile(os.path.join(db, p))]
        if name.startswith("state"):
            # the edit goes to a file the planted state file is going to list (the first five synced paths), non-empty when there is one
            listed = sorted(synced)[:5]
            synced = [p for p in listed if state[p][1] > 0] or listed
        history.append(edit_source(r, src, state, force=((["samesize_earlier", "samesize_subsecond", "samesize_ancient"][k % 3] if i % 2 == 0 else "samesize_ancient") if ("db" in name or name == "all") and k >= 2 else
                                                         ("samesize_subsecond" if name == "state-ck" and k >= 2 else ["samesize_earlier", "samesize_later", "modsize"][(k - 2) % 3] if name.startswith("state") and k >= 2 else None)),      # (seed C18-3: not left to chance)
                                   force_on=synced if name.startswith("state") else None,
                                   # every other 'state' history is calm: a few files created once, then one edit per step to a listed file
                                   only=((["create"] * 5 if k == 1 else []) if name.startswith("state") and (i // len(AUX_SETS)) % 2 == 0 else None)))
        fl = {"j": 1}
        if use_delete:
            fl.update({"delete": 1, "thr": thr})
        if "--checksum" in aux:
            fl["ck"] = 1
            # silent corruption of a destination file (same size, same mtime, other bytes) in BOTH twins: --checksum has to repair it,
            # with or without a database left by earlier runs
            if k >= 2 and r.random() < 0.8:
                cands = [p for p in sorted(x for x in state if not x.startswith("\0")) if os.path.isfile(os.path.join(da, p)) and os.path.isfile(os.path.join(db, p))
                         and os.path.getsize(os.path.join(da, p)) > 0 and world.sha(os.path.join(da, p)) == world.sha(os.path.join(db, p))
                         and os.path.isfile(os.path.join(src, p)) and world.sha(os.path.join(src, p)) == world.sha(os.path.join(da, p))
                         and os.stat(os.path.join(src, p)).st_mtime_ns == os.stat(os.path.join(da, p)).st_mtime_ns]     # in sync and not edited in this step
                if cands:
                    victim = r.choice(cands)
                    for root in (da, db):
                        fp = os.path.join(root, victim)
                        st_ = os.stat(fp)
                        with open(fp, "r+b") as fh:
                            b0 = fh.read(1); fh.seek(0); fh.write(bytes([b0[0] ^ 0x5A]))
                        os.utime(fp, ns=(st_.st_atime_ns, st_.st_mtime_ns))
                    history.append([("corrupt-destination", victim)])
        dmg = damage(r, db) if k > 1 and r.random() < 0.4 and i % 2 == 0 else []      # odd histories keep their files intact (hits need surviving rows)
        if name == "db-damaged" and k > 1 and os.path.exists(os.path.join(db, ".sy-checksums.db")):
            how = ["old-schema", "bad-type", "bad-kind"][(i // len(AUX_SETS) + k) % 3]
            if damage_sqlite(os.path.join(db, ".sy-checksums.db"), how):
                dmg.append((".sy-checksums.db", how))
                stats["db_structurally_damaged"] = stats.get("db_structurally_damaged", 0) + 1
        if name.startswith("state") and k >= 2:
            # a VALID state file listing some current source paths as completed (public ResumeState API)
            # paths an interrupted earlier run would have completed: files that are in the destination now
            paths = [p for p in sorted(k for k in state if not k.startswith("\0")) if os.path.isfile(os.path.join(db, p))][:5]
            if paths:
                vlib.run_sharded([os.path.join(vlib.BIN, "h_cache")], ["RS %s %d %s %s" % (db.encode().hex(), 1 if use_delete else 0, ",".join(p.encode().hex() for p in paths),
                                                                              # completed when the earlier run was made: now (an honest leftover), or some date before the files' time stamps
                                                                              datetime.datetime.now(datetime.timezone.utc).isoformat() if r.random() < 0.8 else "2020-01-01T00:00:00+00:00")], shards=1)
                dmg.append(("valid-state", paths))
                # the destination drifts after the state file was written: a listed file is removed, or rewritten by somebody else
                # (same size, other bytes, another time stamp) -- in both twins alike
                if r.random() < 0.5:
                    victim = r.choice(paths)
                    kind = r.choice(["removed", "rewritten"])
                    for root in (da, db):
                        fp = os.path.join(root, victim)
                        if not os.path.isfile(fp) or os.path.islink(fp):
                            continue
                        if kind == "removed":
                            os.remove(fp)
                        else:
                            sz = os.path.getsize(fp)
                            with open(fp, "wb") as fh:
                                fh.write(world.pbytes(99 + k, sz))
                            os.utime(fp, ns=(ew.T0NS + 77 * 10**9, ew.T0NS + 77 * 10**9))
                    dmg.append(("destination-" + kind, victim))
        tag = {"history": i, "seed": seed, "step": k, "aux": name, "flags": fl, "edits": history, "damage": dmg}
        meta_before = [m for m in META if os.path.exists(os.path.join(db, m))]
        out = {}
        for which, dst, extra in (("plain", da, [a for a in plain if a != "--checksum"]), ("aux", db, [a for a in aux if a != "--checksum"])):
            ids = ew.Ids()
            hidden = set(p for x in dmg if x[0] == "valid-state" for p in x[1] if still_same(src, db, p)) if which == "aux" else set()
            # Caches.plan_resume: paths the state file lists as completed are not planned; the deletion plan still sees them
            # (they reach Engine.run as kept-out entries)
            sel = (lambda sl: [t for t in sl if t[1] not in hidden]) if hidden else None
            case, ob, raw = ew.run_once(sc, src, dst, fl, ids, k=k, extra_args=extra, select=sel)
            stats["runs"] += 1
            metas = sorted(set([rel for rel in set(raw["before"]) | set(raw["after"]) if is_meta(rel)]) | set(META))   # the database is created when opened: it may exist only DURING the run
            out[which] = (raw, ob)
            cases.append(case); obs.append((filter_line(ob, ids, metas), ids, metas, dict(tag, which=which)))
        ra, rb = out["plain"][0], out["aux"][0]
        # the invariant the dir-cache theorem uses, on the file the run left
        cp = os.path.join(db, ".sy-dir-cache.json")
        if os.path.exists(cp):
            try:
                cj = json.load(open(cp))
                stats["cache_files_inspected"] += 1
                if "." in cj.get("dir_entries", {}) or "" in cj.get("dir_entries", {}):
                    diffs.append(dict(tag, what="the directory cache a run wrote contains the root entry: the cached listing can now be substituted for a scan (Caches.no_root broken)"))
            except ValueError:
                pass
        a, b = strip(ra["after"]), strip(rb["after"])
        d = world.diff_snap(a, b, ignore=("ino", "blocks", "nlink"))
        d = [p for p in d if not (a.get(p, {}).get("kind") == "d" and b.get(p, {}).get("kind") == "d")]
        # the property is about WHICH files end up in the destination and their CONTENTS: a file that a resumed run does not
        # transfer again because its bytes are the recorded ones (an empty file rewritten, a touch) keeps its older mtime
        mt_only = [p for p in d if a.get(p, {}).get("kind") == "f" and b.get(p, {}).get("kind") == "f" and a[p].get("sha") == b[p].get("sha") and a[p].get("size") == b[p].get("size")]
        if mt_only:
            stats["mtime_only_differences"] = stats.get("mtime_only_differences", 0) + len(mt_only)
            d = [p for p in d if p not in mt_only]
        stats["twin_steps"] += 1
        if d or (ra["rc"] != rb["rc"]):
            klass = None
            # the database file is created when it is opened, i.e. before this very run plans its deletions
            if use_delete and (meta_before or "--checksum-db=true" in aux) and not any(x[0] == "valid-state" for x in dmg):
                klass = "metadata-counted"
            if any(x[0] == "valid-state" for x in dmg):
                klass = "stale-state"
            f = dict(tag, why="destinations differ after this step (minus sy's metadata files) at %s; exit plain=%s aux=%s" % (d[:5], ra["rc"], rb["rc"]), klass=klass,
                     stderr_aux=rb["stderr"][-200:])
            if klass in known:
                hits.setdefault(known[klass]["id"], []).append(f)
            else:
                viol.append(f)
            # resynchronise the twins so that later steps are judged on their own
            shutil.rmtree(db); shutil.copytree(da, db, symlinks=True)
    shutil.rmtree(base, ignore_errors=True)
    return viol, hits, diffs, cases, obs


def run(tier, seed):
    res = vlib.Result(PID, tier, seed)
    pr = proof_phase(res, PID)
    okm, outm = vlib.build_model()
    oki, outi, _ = vlib.build_impl()
    if not (okm and oki):
        res.violation("build", "build failed:\n" + (outi if not oki else outm)[-3000:], no_input=True)
        return res.finish()
    known = {f["class"]: f for f in vlib.load_known()["findings"] if f["property"] == PID}
    r = vlib.rng_for(seed, PID)
    stats = {"runs": 0, "twin_steps": 0, "cache_files_inspected": 0}
    diffs, viol, hits = [], [], {}
    with vlib.Scratch() as sc:
        api = api_cases(r, 200 if tier == "quick" else 3000)
        dbdir = os.path.join(sc.dir, "dbs"); os.makedirs(dbdir)
        lines = []
        for j, (kind, ops) in enumerate(api):
            if kind == "DB":
                d = os.path.join(dbdir, "d%d" % j); os.makedirs(d)
                lines.append("DB %s %s" % (d.encode().hex(), ops))
            else:
                lines.append("DC %s" % ops)
        impl = vlib.run_sharded([os.path.join(vlib.BIN, "h_cache")], lines)
        model = vlib.run_model(lines)
        for c, a, m in zip(lines, impl, model):
            if a != m:
                diffs.append({"what": "ChecksumDatabase / DirectoryCache API differs from Caches.v", "case": c[:600], "impl": a, "model": m})
        stats["api_cases"] = len(lines)
        nh = 27 if tier == "quick" else 198
        cases, obs = [], []
        for i in range(nh):
            v, h, d, cs, ob = run_history(sc, seed, i, known, stats)
            viol += v; diffs += d; cases += cs; obs += ob
            for k, x in h.items():
                hits.setdefault(k, []).extend(x)
        viol += resume_kind_change_worlds(sc, stats)
        viol += lossy_names_world(sc, stats)
    model = vlib.run_model(cases)
    for case, (o, ids, metas, tag), m in zip(cases, obs, model):
        mm = filter_line(ew.model_obs(m), ids, metas)
        if o != mm:
            diffs.append(dict(tag, what="the binary differs from Engine.run", impl=o[:800], model=mm[:800], case=case[:800]))
    res.cov["evaluations"] = stats["api_cases"] + stats["runs"]
    res.cov["distinct_nontrivial"] = stats["twin_steps"]
    res.cov["model_impl_disagreements"] = len(diffs)
    res.cov["stats"] = stats
    res.cov["known_finding_hits"] = {k: len(v) for k, v in hits.items()}
    res.cov["rule"] = ("API: random store/get sequences over 3 paths with mtimes differing by 1 ns, 0.5 s, 1 s, 2 s and sizes 0/5/6; update/needs_rescan sequences around the 1 s tolerance. "
                       "Histories of 3-5 steps; each step edits the source (create, change size, same size with later mtime, same size with EARLIER mtime, delete, rename, directory->file, "
                       "file->directory; directory mtimes held constant) and syncs it into a plain and an aux destination (%s), --delete in about half; aux files damaged (truncated, garbage, "
                       "version changed) before 40%% of the later steps; 'state' histories plant a valid state file naming current paths" % ", ".join(a[0] for a in AUX_SETS))
    res.cov["trusted_base"] = TRUSTED_COMMON + ["SQLite (rusqlite) storing and returning rows as written", "xxh3 collision-freedom (content ids)",
                                                 "history premise of the property: an edit changes size or mtime (generated that way)"]
    res.notes.append("Model scope: Caches.v covers what a run CONSULTS (database lookups, the root entry of the directory cache, the completed set). That the executor never reads these files is part of Engine.v's correspondence (same binary runs compared with Engine.run).")
    for cls, f in known.items():
        h = hits.get(f["id"], [])
        if h:
            res.known.append("%s %s [%d steps this run, e.g. history %d step %d]" % (f["id"], f["what"], len(h), h[0]["history"], h[0]["step"]))
        else:
            res.notes.append("listed finding %s was not reproduced by this run" % f["id"])
    for v in viol[:3]:
        res.violation("history", v)
    if not viol and (diffs or pr["broken"]):
        what = list(pr["broken"])
        if diffs:
            what.append("%d correspondence differences; first: %s" % (len(diffs), json.dumps(diffs[0], default=str)[:1500]))
        res.violation("unproved", {"no_failing_input_found": True, "what_no_longer_checks": what, "first": diffs[0] if diffs else None}, no_input=True)
    return res.finish()


def replay(path):
    d = json.load(open(path))
    print(json.dumps(d, indent=1, default=str)[:4000])
    if "history" not in d:
        return 0
    vlib.build_model(); vlib.build_impl()
    known = {f["class"]: f for f in vlib.load_known()["findings"] if f["property"] == PID}
    stats = {"runs": 0, "twin_steps": 0, "cache_files_inspected": 0}
    with vlib.Scratch() as sc:
        v, h, dd, cs, ob = run_history(sc, d.get("seed", 20260930), d["history"], known, stats)
    print("replay: %d failures now; first: %s" % (len(v), json.dumps(v[0], default=str)[:800] if v else None))
    return 1 if v else 0
