"""C19 -- the machine-readable report is well-formed and truthful.
Theorems: coq/Properties/C19.v over Model/Engine.v.  Tie: C01/C06/C10-style worlds through the real binary with --json
(every stdout line parsed), events and counters vs the before/after snapshot diff and vs Engine.run; human-mode
counters parsed from a twin run."""
import json, os, re, shutil, subprocess
import vlib, world, engine_world as ew
import c01, c10
from common import proof_phase, TRUSTED_COMMON

PID = "C19"


def human_counters(out):
    c = {}
    for key, pat in (("created", r"Files created:\s+(\d+)"), ("updated", r"Files updated:\s+(\d+)"), ("skipped", r"Files skipped:\s+(\d+)"), ("deleted", r"Files deleted:\s+(\d+)")):
        m = re.search(pat, re.sub(r"\x1b\[[0-9;]*m", "", out))
        if m:
            c[key] = int(m.group(1))
    return c


def watch_json_lines(sc):
    """(b5d2480) --watch --json: the initial sync, one burst of changes, SIGINT -- every line on standard output is a JSON object"""
    import signal, time
    base = os.path.join(sc.dir, "watchjson")
    os.makedirs(base + "/src"); os.makedirs(base + "/dst")
    with open(base + "/src/f", "w") as f:
        f.write("1")
    env = dict(os.environ); env.update(sc.env)
    out = open(base + "/stdout", "wb")
    p = subprocess.Popen([world.SY, base + "/src", base + "/dst", "--watch", "--json"], env=env, stdout=out, stderr=subprocess.DEVNULL)
    try:
        time.sleep(1.2)
        with open(base + "/src/g", "w") as f:
            f.write("2")
        deadline = time.time() + 8
        while time.time() < deadline and not os.path.exists(base + "/dst/g"):
            time.sleep(0.1)
        time.sleep(0.3)
        p.send_signal(signal.SIGINT)
        p.wait(timeout=10)
    except Exception:
        p.kill()
    out.close()
    bad, n = [], 0
    for line in open(base + "/stdout", "rb").read().decode("utf-8", "replace").split("\n")[:-1]:
        n += 1
        try:
            if not isinstance(json.loads(line), dict):
                bad.append(line)
        except Exception:
            bad.append(line)
    propagated = os.path.exists(base + "/dst/g")
    shutil.rmtree(base, ignore_errors=True)
    return n, bad, propagated


def run(tier, seed):
    bytes_name_failures = 0
    stale_hidden_runs = 0
    stale_links = 0
    res = vlib.Result(PID, tier, seed)
    pr = proof_phase(res, PID)
    okm, outm = vlib.build_model()
    oki, outi, _ = vlib.build_impl()
    if not (okm and oki):
        res.violation("build", "build failed:\n" + (outi if not oki else outm)[-3000:], no_input=True)
        return res.finish()
    known = {f["class"]: f for f in vlib.load_known()["findings"] if f["property"] == PID}
    r = vlib.rng_for(seed, PID)
    n = 60 if tier == "quick" else 700
    cases, obs_l, viol, diffs, nontriv, hits, samples = [], [], [], [], set(), {}, []
    import c09
    shim_ok = c09.build_shim()[0]
    injected_runs = injected_hit = 0
    link_diffs = []
    with vlib.Scratch() as sc:
        for i in range(n):
            sspec, dspec = ew.gen_world(r, with_big=(i % 3 == 0))
            faulted = set()
            if i % 3 == 1:
                faulted = c10.add_conflicts(r, sspec, dspec)
            fl = ew.gen_flags(r, jobs=True)
            base = os.path.join(sc.dir, "w%d" % i)
            A, B = base + "/A", base + "/B"
            for root in (A, B):
                ew.mk(root + "/src", sspec)
                ew.mk(root + "/dst", sorted(dspec, key=lambda e: (e["p"].count("/"), e["k"] != "d")))
                os.makedirs(root + "/src", exist_ok=True); os.makedirs(root + "/dst", exist_ok=True)
            if i % 4 == 1 and not faulted:
                # stale symbolic links in the destination (seed C19-4): dangling, a loop, to a directory, to another stale entry -- with
                # --delete each is an entry whose deletion must be reported exactly when it happened
                stale_links += 1
                stale_files = [e["p"] for e in dspec if e["k"] == "f" and e["p"] not in {x["p"] for x in sspec}]
                links = [("zz_dangling", "nowhere/at/all"), ("zz_loop", "zz_loop"), ("zz_dir", ".")]
                if stale_files:
                    links.append(("zz_to_stale", stale_files[0]))
                for root in (A, B):
                    for name_, target_ in links:
                        if not os.path.lexists(os.path.join(root, "dst", name_)) and name_ not in {x["p"] for x in sspec}:
                            os.symlink(target_, os.path.join(root, "dst", name_))
                            os.utime(os.path.join(root, "dst", name_), ns=(ew.T0NS + 7003 * 10**9,) * 2, follow_symlinks=False)
            if i % 5 == 4 and not fl.get("dry"):
                # a valid resume state left by an interrupted earlier run (nothing recorded as completed), with the same or with
                # other flags: whatever the engine has to say about it must not go to standard output
                dflag = fl.get("delete", 0) if r.random() < 0.5 else 1 - fl.get("delete", 0)
                vlib.run_sharded([os.path.join(vlib.BIN, "h_cache")], ["RS %s %d -" % ((A + "/dst").encode().hex(), dflag)], shards=1)
            ids = ew.Ids()
            inject = None
            if i % 6 == 3 and shim_ok and not fl.get("dry"):
                # an injected per-file failure: the k-th mutating libc call below the world fails with EIO / ENOSPC
                inject = {"LD_PRELOAD": c09.SHIM, "SY_CRASH_ROOT": A, "SY_CRASH_LOG": base + "/shim.log",
                          "SY_FAIL_AT": str(r.randrange(1, 12)), "SY_FAIL_ERRNO": str(r.choice([5, 28]))}
            case, obs, raw = ew.run_once(sc, A + "/src", A + "/dst", fl, ids, extra_env=inject)
            if inject:
                injected_runs += 1
                hitline = None
                if os.path.exists(base + "/shim.log"):
                    ls = [l.rstrip("\n").split("\t") for l in open(base + "/shim.log", errors="replace") if l[:1].isdigit()]
                    k = int(inject["SY_FAIL_AT"])
                    hitline = ls[k - 1] if len(ls) >= k else None
                wi = []
                if raw["badlines"]:
                    wi.append("%d stdout line(s) are not JSON objects: %r" % (raw["badlines"], raw["stdout_tail"][-160:]))
                kvi = dict(x.split("=", 1) for x in obs.split(" "))
                if hitline is not None:
                    injected_hit += 1
                    if raw["rc"] != 0 and int(kvi["nerr"]) == 0 and not raw.get("fatal"):
                        wi.append("the run failed (exit %s) but the stream has no error object" % raw["rc"])
                sm = raw["summary"]
                if sm is not None:
                    cnt = {k_: sum(1 for e in raw["events"] if e.split(":")[0] == k_) for k_ in ("create", "update", "skip", "delete")}
                    if (sm["files_created"], sm["files_updated"], sm["files_skipped"], sm["files_deleted"]) != (cnt["create"], cnt["update"], cnt["skip"], cnt["delete"]):
                        wi.append("summary counters differ from the event counts under an injected failure")
                # events that are there must still be true: a created path exists, a deleted path is gone
                inv_ = {v: k_ for k_, v in ids.names.items()}
                for e in raw["events"]:
                    t_, pid_ = e.split(":")
                    rel_ = "/".join(inv_[int(c_)] for c_ in pid_.split("."))
                    if t_ == "create" and rel_ not in raw["after"]:
                        wi.append("create event for %s, which does not exist after the run (injected failure)" % rel_)
                    if t_ == "delete" and rel_ in raw["after"]:
                        wi.append("delete event for %s, which still exists after the run (injected failure)" % rel_)
                for msg in wi:
                    viol.append({"world": i, "flags": fl, "why": msg, "injected": {k_: v for k_, v in inject.items() if k_.startswith("SY_FAIL")}, "failed_call": hitline, "impl": obs})
                shutil.rmtree(base, ignore_errors=True)
                continue
            cases.append(case); obs_l.append(obs)
            w = []
            # (1) every stdout line is a JSON object
            if raw["badlines"]:
                w.append("%d stdout line(s) are not JSON objects: %r" % (raw["badlines"], raw["stdout_tail"][-160:]))
            # (2) events vs observable changes
            before = {k: v for k, v in raw["before"].items() if k not in ew.SY_META}      # sy's own state files are not part of the mirrored tree
            after = {k: v for k, v in raw["after"].items() if k not in ew.SY_META}
            appeared = sorted(p for p in after if p not in before)
            gone = sorted(p for p in before if p not in after)
            changed = sorted(p for p in after if p in before and before[p]["kind"] == "f" and after[p]["kind"] == "f" and
                             (before[p]["sha"], before[p]["mtime_ns"]) != (after[p]["sha"], after[p]["mtime_ns"]))
            inv = {v: k for k, v in ids.names.items()}
            def rel_of(pid_):
                return "/".join(inv[int(c)] for c in pid_.split("."))
            evs = [(e.split(":")[0], rel_of(e.split(":")[1])) for e in raw["events"]]
            creates = sorted(p for t, p in evs if t == "create"); updates = sorted(p for t, p in evs if t == "update")
            deletes = sorted(p for t, p in evs if t == "delete")
            if not fl.get("dry") and not obs.startswith("refused=1"):
                if creates != appeared:
                    w.append("create events %r differ from the entries that appeared %r" % (creates[:5], appeared[:5]))
                if deletes != gone:
                    w.append("delete events %r differ from the entries that disappeared %r" % (deletes[:5], gone[:5]))
                if not set(changed) <= set(updates):
                    w.append("changed files without an update event: %r" % sorted(set(changed) - set(updates))[:5])
                if not fl.get("it") and not fl.get("ck") and not set(updates) <= set(changed) | set(faulted):
                    w.append("update events for files that did not change: %r" % sorted(set(updates) - set(changed))[:5])
            if obs.startswith("refused=1") and not raw.get("fatal"):
                w.append("the run was refused (mass-deletion guard) but the --json stream has no error object")
            # (3) summary counters
            sm = raw["summary"]
            if sm is None and not obs.startswith("refused=1") and raw["rc"] in (0, 1) and "exit=1" not in obs.split(" ")[1:2]:
                w.append("no summary object")
            if sm is not None:
                cnt = {k: sum(1 for t, _ in evs if t == k) for k in ("create", "update", "skip", "delete")}
                if (sm["files_created"], sm["files_updated"], sm["files_skipped"], sm["files_deleted"]) != (cnt["create"], cnt["update"], cnt["skip"], cnt["delete"]):
                    w.append("summary counters %r differ from the event counts %r" % ((sm["files_created"], sm["files_updated"], sm["files_skipped"], sm["files_deleted"]), cnt))
                # (5) human mode on the twin
                env_old = dict(sc.env); sc.env["SY_VERIF_DELTA_THRESHOLD"] = str(fl.get("big", ew.BIG))
                args = [a for a in ew.cli_of(fl) if a != "--json"]
                rr = world.run_sy([B + "/src", B + "/dst"] + args, sc)
                sc.env.clear(); sc.env.update(env_old)
                hc = human_counters(rr["out"])
                for k, jk in (("created", "files_created"), ("updated", "files_updated"), ("skipped", "files_skipped"), ("deleted", "files_deleted")):
                    if k in hc and hc[k] != sm[jk]:
                        w.append("human-mode counter %s=%d differs from the JSON summary %d" % (k, hc[k], sm[jk]))
            kv = dict(x.split("=", 1) for x in obs.split(" "))
            raw["nerr"] = int(kv["nerr"])
            for msg in w:
                viol.append({"world": i, "flags": fl, "why": msg, "case": case, "impl": obs})
            if creates or updates or deletes:
                nontriv.add(obs)
            if len(samples) < 2:
                samples.append({"flags": fl, "events": raw["events"][:8], "summary": sm})
            shutil.rmtree(base, ignore_errors=True)
        # (0881aca) many new directories with a new directory inside, several workers: the task of an inner entry may make the outer
        # directory on its way -- every path that was not there before the run is reported created, exactly once, never updated
        for nd in range(1 if tier == "quick" else 4):
            base = os.path.join(sc.dir, "nestnew%d" % nd)
            os.makedirs(base + "/dst")
            for q in range(150):
                os.makedirs(base + "/src/d%03d/inner/deep" % q)
                open(base + "/src/d%03d/inner/deep/f" % q, "w").write("x")
            for rep_ in range(3):                       # the interleaving varies from run to run (-j64: seen in 3 of 3 runs when it can happen)
                shutil.rmtree(base + "/dst", ignore_errors=True); os.makedirs(base + "/dst")
                rr_ = world.run_sy([base + "/src", base + "/dst", "--json", "-j64"], sc)
                evs_ = [json.loads(l) for l in rr_["out"].split("\n") if l.startswith("{")]
                ups_ = [e["path"] for e in evs_ if e.get("type") == "update"]
                ncre_ = sum(1 for e in evs_ if e.get("type") == "create")
                if ups_ or ncre_ != 150 * 4:
                    viol.append({"world": "nested-new-directories-%d" % nd, "why": "600 new paths (150 x directory/inner/deep/f) into an empty destination with -j64: %d create events, update events for %r" % (ncre_, ups_[:4])})
                    break
            shutil.rmtree(base, ignore_errors=True)
        # (the other direction, 2nd fix of round 4) a symbolic link in the destination where the source has a regular file or a directory
        # now: the path was there before the run -- the replacement is an update, never a creation; dry run and real run agree
        for kc, (skind, dtarget) in enumerate([("file", "nowhere"), ("file", "other.txt"), ("dir", "realdir"), ("dir", "nowhere")]):
            base = os.path.join(sc.dir, "kcr%d" % kc)
            os.makedirs(base + "/src"); os.makedirs(base + "/dst/realdir")
            open(base + "/dst/other.txt", "w").write("other"); open(base + "/src/other.txt", "w").write("other")
            os.makedirs(base + "/src/realdir")
            if skind == "file":
                open(base + "/src/e", "w").write("now a file")
            else:
                os.makedirs(base + "/src/e"); open(base + "/src/e/child", "w").write("c")
            os.symlink(dtarget, base + "/dst/e")
            subprocess.run(["cp", "-p", base + "/src/other.txt", base + "/dst/other.txt"], check=True)
            kinds = {}
            for tag_, extra_ in (("dry", ["--dry-run"]), ("real", [])):
                rr_ = world.run_sy([base + "/src", base + "/dst", "--json", "-j1"] + extra_, sc)
                kinds[tag_] = sorted(json.loads(l)["type"] for l in rr_["out"].split("\n") if l.startswith("{") and json.loads(l).get("path", "").endswith("/dst/e"))
                if tag_ == "real":
                    sm_ = [json.loads(l) for l in rr_["out"].split("\n") if l.startswith("{") and '"summary"' in l]
                    want_created = 1 if skind == "dir" else 0          # e/child is new; e itself was there
                    if sm_ and (sm_[0]["files_created"], sm_[0]["files_updated"]) != (want_created, 1):
                        viol.append({"world": "kind-change-report-%d" % kc, "why": "a %s replaces a destination symlink (-> %s): the summary counts created=%d updated=%d, the destination diff shows %d new path(s) and 1 changed"
                                     % (skind, dtarget, sm_[0]["files_created"], sm_[0]["files_updated"], want_created)})
            if kinds["real"] != ["update"] or kinds["dry"] != kinds["real"]:
                viol.append({"world": "kind-change-report-%d" % kc, "why": "a %s replaces a destination symlink (-> %s): events for the path are %r (real run) and %r (dry run); the path existed before and is changed: one update" % (skind, dtarget, kinds["real"], kinds["dry"])})
            shutil.rmtree(base, ignore_errors=True)
        # symlink entries (outside Engine.v): the event reported for the entry vs Links.link_event and vs what happened
        le_cases, le_obs = [], []
        lw = 0
        for mode in ("skip", "follow", "preserve"):
            for tkind, cw in (("file", "f7"), ("dangling", "m"), ("dir", "d")):
                for prior, dinit in (("absent", "a"), ("samelink", "l1"), ("otherlink", "l2"), ("file", "f3")):
                    base = os.path.join(sc.dir, "lnk%d" % lw); lw += 1
                    os.makedirs(base + "/src/sub"); os.makedirs(base + "/dst")
                    open(base + "/src/t.txt", "w").write("seven77")
                    target = {"file": "t.txt", "dangling": "nowhere", "dir": "sub"}[tkind]
                    os.symlink(target, base + "/src/l")
                    if prior == "samelink":
                        os.symlink(target, base + "/dst/l")
                    elif prior == "otherlink":
                        os.symlink("elsewhere", base + "/dst/l")
                    elif prior == "file":
                        open(base + "/dst/l", "w").write("usr")
                    before_l = os.path.lexists(base + "/dst/l")
                    # what a dry run announces for the entry, vs Links.dry_link_event (and, by C08_dry_run_announces_link_events, vs the real run)
                    rd_ = world.run_sy([base + "/src", base + "/dst", "--links", mode, "--json", "-j1", "--dry-run"], sc)
                    kind_d = "none"
                    for l in rd_["out"].split("\n"):
                        if l.startswith("{"):
                            ev = json.loads(l)
                            if ev.get("path", "").endswith("/dst/l") and ev.get("type") in ("create", "update", "skip", "error"):
                                kind_d = ev["type"]
                    le_cases.append("LD %s %s 1:%s" % (mode, dinit, cw))
                    le_obs.append(kind_d)
                    rr = world.run_sy([base + "/src", base + "/dst", "--links", mode, "--json", "-j1"], sc)
                    kind = "none"
                    for l in rr["out"].split("\n"):
                        if l.startswith("{"):
                            ev = json.loads(l)
                            if ev.get("path", "").endswith("/dst/l") and ev.get("type") in ("create", "update", "skip", "error"):
                                kind = ev["type"]
                    le_cases.append("LE %s %s 1:%s" % (mode, dinit, cw))
                    le_obs.append(kind)
                    # nothing fails in these runs: the summary must not count a failure of any kind, and a dry run must announce
                    # for the entry what the real run reported
                    for l in rr["out"].split("\n"):
                        if l.startswith("{") and '"summary"' in l:
                            sm = json.loads(l)
                            if rr["rc"] == 0 and (sm.get("verification_failures") or sm.get("errors")):
                                viol.append({"world": "links-%s-%s-%s" % (mode, tkind, prior), "why": "exit 0 and the summary counts verification_failures=%s errors=%s" % (sm.get("verification_failures"), sm.get("errors"))})
                    after_l = os.path.lexists(base + "/dst/l")
                    if kind == "create" and (before_l or not after_l):
                        viol.append({"world": "links-%s-%s-%s" % (mode, tkind, prior), "why": "a create event is reported for a symlink entry although %s" % ("the path existed before" if before_l else "nothing appears in the destination")})
                    if kind == "skip" and before_l != after_l:
                        viol.append({"world": "links-%s-%s-%s" % (mode, tkind, prior), "why": "a skip event is reported for a symlink entry although the destination entry %s" % ("disappeared" if before_l else "appeared")})
                    # the same command again (C03): what it reports for the entry now, vs the model on the state the first run left
                    dl = base + "/dst/l"
                    if not os.path.lexists(dl):
                        d1 = "a"
                    elif os.path.islink(dl):
                        d1 = "l1" if os.readlink(dl) == target else "l2"
                    elif os.path.isdir(dl):
                        d1 = "d"
                    else:
                        d1 = "f7" if open(dl, "rb").read() == b"seven77" else "f3"
                    rr2 = world.run_sy([base + "/src", base + "/dst", "--links", mode, "--json", "-j1"], sc)
                    kind2 = "none"
                    for l in rr2["out"].split("\n"):
                        if l.startswith("{"):
                            ev = json.loads(l)
                            if ev.get("path", "").endswith("/dst/l") and ev.get("type") in ("create", "update", "skip", "error"):
                                kind2 = ev["type"]
                    le_cases.append("LE %s %s 1:%s" % (mode, d1, cw))
                    le_obs.append(kind2)
                    if kind2 in ("create", "update"):
                        viol.append({"world": "links-%s-%s-%s" % (mode, tkind, prior), "why": "re-running the same command reports the symlink entry as %sd again" % kind2})
                    shutil.rmtree(base, ignore_errors=True)
        for c_, o_, m_ in zip(le_cases, le_obs, vlib.run_model(le_cases)):
            if o_ != m_:
                link_diffs.append({"case": c_, "impl": o_, "model": m_})
        # a name that is not valid UTF-8 cannot be a JSON string: its events must still be there (lossily written), one per change
        bb = os.path.join(sc.dir, "bytes").encode()
        os.makedirs(bb + b"/src"); os.makedirs(bb + b"/dst")
        for nm, data in ((b"data_\xf0.bin", b"a" * 10), (b"ok.txt", b"b"), (b"upd_\xf1", b"new content")):
            with open(bb + b"/src/" + nm, "wb") as fh:
                fh.write(data)
        with open(bb + b"/dst/upd_\xf1", "wb") as fh:
            fh.write(b"old")
        os.utime(bb + b"/dst/upd_\xf1", ns=(ew.T0NS, ew.T0NS))
        env = dict(os.environ); env.update(sc.env)
        pr_ = subprocess.run([world.SY.encode(), bb + b"/src", bb + b"/dst", b"--json", b"-j1"], env=env, stdout=subprocess.PIPE, stderr=subprocess.PIPE)
        kinds = {}
        for l in pr_.stdout.decode("utf-8", "replace").split("\n"):
            if l.startswith("{"):
                t = json.loads(l).get("type")
                kinds[t] = kinds.get(t, 0) + 1
        if kinds.get("create", 0) != 2 or kinds.get("update", 0) != 1:
            viol.append({"world": "bytes-names", "why": "3 entries changed (2 created, 1 updated; two names are not valid UTF-8) but the stream has %r" % kinds})
        # ... and so must its failures be: a file whose destination path is a non-empty directory, a directory whose destination path
        # is a file, both with names that are not valid UTF-8, and a stale destination-only file of that kind under --delete
        b2 = os.path.join(sc.dir, "bytes2").encode()
        os.makedirs(b2 + b"/src/dd_\xf3"); os.makedirs(b2 + b"/dst/bad_\xf2")
        for nm, data in ((b"src/bad_\xf2", b"file in the source"), (b"src/dd_\xf3/in", b"x"), (b"src/fine", b"y"), (b"dst/bad_\xf2/keep", b"k"), (b"dst/dd_\xf3", b"file in the destination"),
                         (b"dst/stale_\xf4", b"s")):
            with open(b2 + b"/" + nm, "wb") as fh:
                fh.write(data)
        for dele in (False, True):
            pr2 = subprocess.run([world.SY.encode(), b2 + b"/src", b2 + b"/dst", b"--json", b"-j1"] + ([b"--delete", b"--force-delete"] if dele else []), env=env, stdout=subprocess.PIPE, stderr=subprocess.PIPE)
            evs2 = [json.loads(l) for l in pr2.stdout.decode("utf-8", "replace").split("\n") if l.startswith("{")]
            errs2 = [e for e in evs2 if e.get("type") == "error"]
            paths2 = " ".join(str(e.get("path")) for e in errs2)
            summ2 = [e for e in evs2 if e.get("type") == "summary"]
            bytes_name_failures += 1
            if pr2.returncode == 0 or "bad_" not in paths2 or "dd_" not in paths2:
                viol.append({"world": "bytes-names-failures", "delete": dele, "why": "two entries whose names are not valid UTF-8 cannot be written (kind conflicts): exit status %s, "
                             "error events for %r, stderr %r" % (pr2.returncode, paths2, pr2.stderr.decode("utf-8", "replace")[-300:])})
            if dele and (os.path.exists(b2 + b"/dst/stale_\xf4") or not any(e.get("type") == "delete" and "stale_" in str(e.get("path")) for e in evs2)):
                viol.append({"world": "bytes-names-failures", "delete": dele, "why": "the stale destination file with a non-UTF-8 name: removed=%s, delete event present=%s"
                             % (not os.path.exists(b2 + b"/dst/stale_\xf4"), any(e.get("type") == "delete" and "stale_" in str(e.get("path")) for e in evs2))})
        # what the destination scan does not list (.git, files hidden by an ignore rule) goes away with its stale parent directory:
        # every path that vanished has a delete event, and the counter agrees
        for jw in (1, 4):
            b3 = os.path.join(sc.dir, "stalehidden%d" % jw)
            for rel, data in (("src/keep", b"k"), ("dst/keep", b"k"), ("dst/old/x", b"x"), ("dst/old/.git/y", b"y"), ("dst/old/sub/.git/deep/z", b"z"), ("dst/old/.ignore", b"secret.log\n"),
                              ("dst/old/secret.log", b"s"), ("dst/live/.git/cfg", b"c"), ("src/live/a", b"a"), ("dst/live/a", b"a")):
                os.makedirs(os.path.dirname(os.path.join(b3, rel)), exist_ok=True)
                with open(os.path.join(b3, rel), "wb") as fh:
                    fh.write(data)
            for root in ("src", "dst"):
                for dp, _, fns in os.walk(os.path.join(b3, root)):
                    for fn in fns:
                        os.utime(os.path.join(dp, fn), ns=(ew.T0NS, ew.T0NS))
            before3 = set(world.snapshot(b3 + "/dst", content=False))
            pr3 = world.run_sy([b3 + "/src", b3 + "/dst", "--delete", "--force-delete", "--json", "-j%d" % jw], sc)
            after3 = set(world.snapshot(b3 + "/dst", content=False))
            evs3 = [json.loads(l) for l in pr3["out"].split("\n") if l.startswith("{")]
            dels3 = sorted(os.path.relpath(e["path"], b3 + "/dst") for e in evs3 if e.get("type") == "delete")
            summ3 = [e for e in evs3 if e.get("type") == "summary"]
            gone3 = sorted(before3 - after3)
            stale_hidden_runs += 1
            if dels3 != gone3 or not summ3 or summ3[0].get("files_deleted") != len(gone3) or "live/.git/cfg" in gone3:
                viol.append({"world": "stale-directory-with-unlisted-content", "j": jw, "why": "paths that vanished %r, delete events %r, files_deleted %s" % (gone3, dels3, summ3[0].get("files_deleted") if summ3 else None)})
    model = [ew.model_obs(m) for m in vlib.run_model(cases)]
    for case, o, m in zip(cases, obs_l, model):
        if o != m and ew.norm_events(o) != ew.norm_events(m):          # with several workers the events come in completion order
            diffs.append({"case": case, "impl": o, "model": m})
    diffs += link_diffs
    res.cov["link_event_cases"] = 108
    res.cov["non_utf8_name_failure_runs"] = bytes_name_failures
    res.cov["stale_directory_with_unlisted_content_runs"] = stale_hidden_runs
    res.cov["worlds_with_stale_symlinks_in_destination"] = stale_links
    with vlib.Scratch() as sc2:
        wn, wbad, wprop = watch_json_lines(sc2)
    res.cov["watch_json_stdout_lines"] = wn
    if wbad:
        viol.append({"world": "watch-json", "why": "--watch --json: %d of %d lines on standard output are not JSON objects, e.g. %r" % (len(wbad), wn, wbad[:3])})
    res.cov["evaluations"] = len(cases) * 2 + 72
    res.cov["distinct_nontrivial"] = len(nontriv)
    res.cov["model_impl_disagreements"] = len(diffs)
    res.cov["rule"] = ("C01/C06 worlds, one third with natural faults (type conflicts), all flag sets incl. --delete and --dry-run, run with --json (every stdout line parsed; events, error objects, summary) "
                       "and, on a twin, in human mode (counters parsed); every sixth world with an injected per-file failure (LD_PRELOAD shim: the k-th mutating call fails with EIO/ENOSPC): all lines JSON, error object present, counters = event counts, create/delete events true; events and counters compared with the before/after snapshot diff and with Engine.run; non-trivial = at least one create/update/delete event")
    res.cov["samples"] = samples
    res.cov["injected_failure_runs"] = {"runs": injected_runs, "fault_reached": injected_hit}
    res.cov["trusted_base"] = TRUSTED_COMMON + ["serde_json emits one object per line", "symlink entries are outside Engine.v: their events are modelled by Links.link_event (36 mode x target x prior-entry cases through the binary)"]
    res.cov["known_finding_hits"] = {k: len(v) for k, v in hits.items()}
    for cls, f in known.items():
        h = hits.get(f["id"], [])
        if h:
            res.known.append("%s %s [%d cases this run]" % (f["id"], f["what"], len(h)))
    for v in viol[:3]:
        res.violation("world", v)
    if not viol and (diffs or pr["broken"]):
        what = list(pr["broken"]) + (["the JSON report differs from Engine.run on %d runs; first: %s" % (len(diffs), json.dumps(diffs[0])[:1200])] if diffs else [])
        res.violation("unproved", {"no_failing_input_found": True, "what_no_longer_checks": what, "first_case": diffs[0] if diffs else None}, no_input=True)
    return res.finish()


def replay(path):
    return c01.replay(path)
