"""C20 -- watch mode eventually propagates every change and stops cleanly on SIGINT.
Theorems: coq/Properties/C20.v over Model/Watch.v (event loop: channel, pending list, debounce, full sync).
Tie: the loop's constants and shape are regenerated from src/sync/watch.rs on every run (tick, receive timeout,
debounce, watcher registered before the initial sync, events pushed when they pass the filter, after a sync only
the pending list is cleared); the real `sy --watch` process is driven through scenarios that place changes
before, during (syncs stretched with --bwlimit) and after syncs -- including the initial one -- and in bursts,
with and without --delete; the destination is polled until it equals the source or a generous deadline passes.
Oracle: convergence after quiescence within the deadline; exit status 0 within the deadline after SIGINT."""
import json, os, shutil, signal, subprocess, time
import vlib, world
from common import proof_phase, TRUSTED_COMMON

PID = "C20"
DEADLINE = 25.0


class Watch:
    def __init__(self, sc, base, args):
        self.src, self.dst = base + "/src", base + "/dst"
        self.log = base + "/watch.log"
        env = dict(os.environ); env.update(sc.env); env["RUST_LOG"] = "info"; env["NO_COLOR"] = "1"
        self.f = open(self.log, "wb")
        self.p = subprocess.Popen([world.SY, self.src, self.dst, "--watch"] + args, env=env, cwd=sc.dir, stdout=self.f, stderr=subprocess.STDOUT)

    def text(self):
        try:
            return open(self.log, errors="replace").read()
        except OSError:
            return ""

    def wait_for(self, needle, count=1, timeout=20.0):
        t0 = time.time()
        while time.time() - t0 < timeout:
            if self.text().count(needle) >= count:
                return True
            if self.p.poll() is not None:
                return False
            time.sleep(0.02)
        return False

    def stop(self, timeout=10.0):
        """SIGINT; returns (exit status or None, seconds)"""
        t0 = time.time()
        if self.p.poll() is None:
            self.p.send_signal(signal.SIGINT)
        try:
            rc = self.p.wait(timeout=timeout)
        except subprocess.TimeoutExpired:
            self.p.kill(); self.p.wait()
            rc = None
        self.f.close()
        return rc, time.time() - t0


def tree(root):
    out = {}
    for dp, dns, fns in os.walk(root):
        for n in dns:
            out[os.path.relpath(os.path.join(dp, n), root)] = "d"
        for n in fns:
            p = os.path.join(dp, n)
            try:
                out[os.path.relpath(p, root)] = world.sha(p)
            except OSError:
                out[os.path.relpath(p, root)] = "?"
    return out


def converged(src, dst, delete):
    a, b = tree(src), tree(dst)
    if delete:
        return a == b
    return all(b.get(k) == v for k, v in a.items())


def wait_converged(w, delete, deadline=DEADLINE):
    t0 = time.time()
    while time.time() - t0 < deadline:
        if converged(w.src, w.dst, delete):
            return time.time() - t0
        time.sleep(0.1)
    return None


def put(path, data):
    os.makedirs(os.path.dirname(path), exist_ok=True)
    with open(path, "wb") as f:
        f.write(data)


# ------------------------------------------------------------------ scenarios: each returns list of failure strings
def sc_idle(sc, base, r, delete):
    args = ["--delete", "--force-delete"] if delete else []
    put(base + "/src/a.txt", b"v1"); put(base + "/src/sub/b.txt", b"b1"); os.makedirs(base + "/dst")
    w = Watch(sc, base, args)
    fails = []
    if not w.wait_for("Watching"):
        fails.append("watcher never became ready")
    put(base + "/src/a.txt", b"v2 longer"); put(base + "/src/new.txt", b"n")
    if wait_converged(w, delete) is None:
        fails.append("edit + create made while idle were not propagated within %.0f s" % DEADLINE)
    time.sleep(r.choice([0.05, 0.3, 0.6, 1.2]))
    os.rename(base + "/src/new.txt", base + "/src/renamed.txt")
    put(base + "/src/sub/deep/c.txt", b"c")
    if delete:
        os.remove(base + "/src/sub/b.txt")
    if wait_converged(w, delete) is None:
        fails.append("rename + nested create%s were not propagated within %.0f s" % (" + delete" if delete else "", DEADLINE))
    rc, secs = w.stop()
    if rc != 0:
        fails.append("exit status after SIGINT while idle: %s (%.1f s)" % (rc, secs))
    return fails


def sc_during_initial(sc, base, r, delete):
    """a change made while the INITIAL sync is still running (after the scanner has passed the file)"""
    put(base + "/src/a.txt", b"v1"); put(base + "/src/big.bin", r.randbytes(400000)); os.makedirs(base + "/dst")
    w = Watch(sc, base, ["--bwlimit", "100KB", "-j1"] + (["--delete", "--force-delete"] if delete else []))
    fails = []
    # a.txt is copied first, then the rate limiter holds the sync for seconds
    t0 = time.time()
    while time.time() - t0 < 10 and not os.path.exists(base + "/dst/a.txt"):
        time.sleep(0.02)
    time.sleep(0.3)
    during = "Watching" not in w.text() or True
    put(base + "/src/a.txt", b"v2 edited during the initial sync")
    put(base + "/src/added.txt", b"added during the initial sync")
    if not w.wait_for("Watching", timeout=30):
        fails.append("watcher never became ready")
    if wait_converged(w, delete) is None:
        fails.append("a change made while the initial sync was running was not propagated within %.0f s after it" % DEADLINE)
    rc, secs = w.stop()
    if rc != 0:
        fails.append("exit status after SIGINT: %s" % rc)
    return fails


def sc_during_sync(sc, base, r, delete):
    """changes made while a watch-triggered sync is running"""
    put(base + "/src/notes.txt", b"version 1"); put(base + "/src/big.bin", r.randbytes(1000)); os.makedirs(base + "/dst")
    w = Watch(sc, base, ["--bwlimit", "100KB", "-j1"] + (["--delete", "--force-delete"] if delete else []))
    fails = []
    if not w.wait_for("Watching"):
        fails.append("watcher never became ready")
    n0 = w.text().count("Sync complete")
    put(base + "/src/big.bin", r.randbytes(400000))          # triggers a sync that the rate limiter stretches to seconds
    if not w.wait_for("Changes detected", timeout=15):
        fails.append("the triggering change did not start a sync")
    # wait until the big file has arrived (the sync is now sleeping in the limiter), then change things
    t0 = time.time()
    while time.time() - t0 < 10 and not (os.path.exists(base + "/dst/big.bin") and os.path.getsize(base + "/dst/big.bin") == 400000):
        time.sleep(0.02)
    time.sleep(0.2)
    in_sync = w.text().count("Sync complete") == n0
    put(base + "/src/notes.txt", b"version 2, longer");   # another size: a same-size rewrite within a second is "unchanged" for the quick check (C01's rule), watch or not
    put(base + "/src/added.txt", b"x")
    if delete:
        pass
    if wait_converged(w, delete) is None:
        fails.append("changes made while a sync was running%s were not propagated within %.0f s" % ("" if in_sync else " (or right after it)", DEADLINE))
    rc, secs = w.stop()
    if rc != 0:
        fails.append("exit status after SIGINT: %s" % rc)
    return fails


def sc_burst(sc, base, r, delete):
    os.makedirs(base + "/src"); os.makedirs(base + "/dst")
    put(base + "/src/seed.txt", b"s")
    w = Watch(sc, base, ["--delete", "--force-delete"] if delete else [])
    fails = []
    if not w.wait_for("Watching"):
        fails.append("watcher never became ready")
    n = r.choice([40, 120])
    for i in range(n):
        put(base + "/src/d%d/f%d.txt" % (i % 7, i), b"x" * (i % 50))
        if i % 10 == 9:
            time.sleep(r.choice([0, 0.01, 0.12, 0.55]))        # gaps below and above the receive timeout / debounce
    for i in range(0, n, 3):
        os.rename(base + "/src/d%d/f%d.txt" % (i % 7, i), base + "/src/d%d/g%d.txt" % (i % 7, i))
    if delete:
        shutil.rmtree(base + "/src/d3", ignore_errors=True)
    if wait_converged(w, delete, deadline=DEADLINE + n * 0.15) is None:
        fails.append("a burst of %d creations, renames%s was not propagated within the deadline" % (n, " and a directory removal" if delete else ""))
    rc, secs = w.stop()
    if rc != 0:
        fails.append("exit status after SIGINT: %s" % rc)
    return fails


def sc_sigint_during_sync(sc, base, r, delete):
    """SIGINT while a watch-triggered sync is running (during the INITIAL sync the process still has the default
    disposition, exactly like a plain run, and dies from the signal: not judged here)"""
    put(base + "/src/big.bin", r.randbytes(1000)); os.makedirs(base + "/dst")
    w = Watch(sc, base, ["--bwlimit", "100KB", "-j1"])
    fails = []
    if not w.wait_for("Watching"):
        fails.append("watcher never became ready")
    put(base + "/src/big.bin", r.randbytes(300000))
    if not w.wait_for("Changes detected", timeout=15):
        fails.append("the triggering change did not start a sync")
    time.sleep(0.5)
    rc, secs = w.stop(timeout=30)          # the sync is inside the rate limiter now
    if rc != 0:
        fails.append("exit status after SIGINT during a sync: %s after %.1f s" % (rc, secs))
    return fails


def sc_single_events(sc, base, r, delete):
    """every kind of change ALONE in its quiet period (nothing else in the burst that could stand in for its event): create, edit,
    rename inside the tree, move into the tree from outside, and -- with --delete -- remove, move out of the tree (file and
    directory: inotify reports only the FROM half)"""
    args = ["--delete", "--force-delete"] if delete else []
    put(base + "/src/a.txt", b"v1"); put(base + "/src/gone.txt", b"g"); put(base + "/src/out.txt", b"o"); put(base + "/src/sub/b.txt", b"b1")
    put(base + "/src/old_name.txt", b"r"); put(base + "/src/outdir/x.txt", b"x"); os.makedirs(base + "/dst"); os.makedirs(base + "/elsewhere")
    put(base + "/elsewhere/in.txt", b"coming in")
    w = Watch(sc, base, args)
    fails = []
    if not w.wait_for("Watching"):
        fails.append("watcher never became ready")
    if wait_converged(w, delete) is None:
        fails.append("initial sync did not converge")
    steps = [("create", lambda: put(base + "/src/new.txt", b"n")),
             ("edit", lambda: put(base + "/src/a.txt", b"v2 longer")),
             ("rename inside the tree", lambda: os.rename(base + "/src/old_name.txt", base + "/src/renamed.txt")),
             ("move into the tree", lambda: os.rename(base + "/elsewhere/in.txt", base + "/src/in.txt"))]
    if delete:
        steps += [("remove", lambda: os.remove(base + "/src/gone.txt")),
                  ("move a file out of the tree", lambda: os.rename(base + "/src/out.txt", base + "/elsewhere/out.txt")),
                  ("move a directory out of the tree", lambda: os.rename(base + "/src/outdir", base + "/elsewhere/outdir"))]
    r.shuffle(steps)
    for what, act in steps:
        time.sleep(r.choice([0.7, 0.9, 1.3]))          # longer than the debounce: the change is alone in its burst
        act()
        if wait_converged(w, delete, deadline=12.0) is None:
            fails.append("%s (the only change of its burst) was not propagated within 12 s" % what)
            break
    rc, secs = w.stop()
    if rc != 0:
        fails.append("exit status after SIGINT while idle: %s (%.1f s)" % (rc, secs))
    return fails


def sc_mass_delete(sc, base, r, delete):
    """a burst that removes many files, with --delete and WITHOUT --force-delete (the safety checks of the engine stay on): below the
    percentage threshold the destination has to catch up; more than 1000 removals must not make the loop wait for an answer on
    standard input (`fix: watch mode does not ask for confirmation on standard input`)"""
    os.makedirs(base + "/src"); os.makedirs(base + "/dst")
    total, gone = (2100, 1001 + r.randrange(0, 40)) if delete else (600, 250)
    for i in range(total):
        with open(base + "/src/f%04d" % i, "wb") as fh:
            fh.write(b"x")
    w = Watch(sc, base, ["--delete"])
    fails = []
    if not w.wait_for("Watching", timeout=60.0):
        fails.append("watcher never became ready")
    time.sleep(0.6)
    for i in range(gone):
        os.remove(base + "/src/f%04d" % i)
    if wait_converged(w, True, deadline=DEADLINE + gone * 0.04) is None:
        fails.append("%d of %d files removed in one burst (--delete, %d%% of the destination): not propagated within the deadline; destination has %d entries, source %d"
                     % (gone, total, 100 * gone // total, len(os.listdir(base + "/dst")), len(os.listdir(base + "/src"))))
    rc, secs = w.stop()
    if rc != 0:
        fails.append("exit status after SIGINT: %s" % rc)
    return fails


def sc_come_back(sc, base, r, delete):
    """(seed C20-4) one session, one engine, one transport for many syncs: a directory that was synchronised goes away (removed, or renamed
    away) -- with --delete that is propagated -- and then comes back at the same path, twice; what the process remembers from an
    earlier sync of the session must not stand in for the state of the destination"""
    args = ["--delete", "--force-delete"] if delete else []
    put(base + "/src/keep.txt", b"k"); put(base + "/src/D/one.txt", b"1"); put(base + "/src/D/sub/two.txt", b"2"); os.makedirs(base + "/dst")
    w = Watch(sc, base, args)
    fails = []
    if not w.wait_for("Watching"):
        fails.append("watcher never became ready")
    if wait_converged(w, delete) is None:
        fails.append("initial sync did not converge")
    for rnd in range(2):
        time.sleep(r.choice([0.7, 1.0]))
        if rnd == 0:
            shutil.rmtree(base + "/src/D")
        else:
            os.rename(base + "/src/D", base + "/src/E")
        if wait_converged(w, delete, deadline=12.0) is None:
            fails.append("round %d: the directory going away was not propagated within 12 s" % rnd)
            break
        time.sleep(r.choice([0.7, 1.0]))
        if rnd == 0:
            put(base + "/src/D/again.txt", b"back"); put(base + "/src/D/sub/deeper/three.txt", b"3")
        else:
            os.rename(base + "/src/E", base + "/src/D")
        if wait_converged(w, delete, deadline=12.0) is None:
            fails.append("round %d: a directory that %s and came back at the same path did not arrive within 12 s (destination has %r)"
                         % (rnd, "was removed" if rnd == 0 else "was renamed away", sorted(tree(base + "/dst"))[:8]))
            break
    rc, secs = w.stop()
    if rc != 0:
        fails.append("exit status after SIGINT while idle: %s (%.1f s)" % (rc, secs))
    return fails


SCENARIOS = [("single-events", sc_single_events), ("come-back", sc_come_back), ("idle", sc_idle), ("during-initial-sync", sc_during_initial), ("during-sync", sc_during_sync), ("burst", sc_burst),
             ("sigint-during-sync", sc_sigint_during_sync), ("mass-delete", sc_mass_delete)]


def run_scenario(sc, seed, idx):
    name, fn = SCENARIOS[idx % len(SCENARIOS)]
    delete = (idx // len(SCENARIOS)) % 2 == 1
    r = vlib.rng_for(seed, "C20-s%d" % idx)
    base = os.path.join(sc.dir, "s%d" % idx)
    os.makedirs(base)
    t0 = time.time()
    try:
        fails = fn(sc, base, r, delete)
    finally:
        subprocess.run(["pkill", "-KILL", "-f", base + "/src"], stdout=subprocess.DEVNULL, stderr=subprocess.DEVNULL)
    log = ""
    try:
        log = open(base + "/watch.log", errors="replace").read()[-600:]
    except OSError:
        pass
    shutil.rmtree(base, ignore_errors=True)
    return name, delete, fails, time.time() - t0, log


def run(tier, seed):
    res = vlib.Result(PID, tier, seed)
    pr = proof_phase(res, PID)
    oki, outi, _ = vlib.build_impl()
    if not oki:
        res.violation("build", "build failed:\n" + outi[-3000:], no_input=True)
        return res.finish()
    n = 16 if tier == "quick" else 96
    viol, runs = [], []
    from concurrent.futures import ThreadPoolExecutor
    with vlib.Scratch() as sc:
        with ThreadPoolExecutor(max_workers=6) as ex:
            futs = [ex.submit(run_scenario, sc, seed, i) for i in range(n)]
            for i, f in enumerate(futs):
                name, delete, fails, secs, log = f.result()
                runs.append({"scenario": name, "delete": delete, "secs": round(secs, 1), "failures": len(fails)})
                for x in fails:
                    viol.append({"scenario": name, "index": i, "seed": seed, "delete": delete, "why": x, "log_tail": log})
    res.cov["evaluations"] = len(runs)
    res.cov["distinct_nontrivial"] = len({(x["scenario"], x["delete"]) for x in runs})
    res.cov["model_impl_disagreements"] = 0
    res.cov["runs"] = runs
    res.cov["rule"] = ("scenarios %s, each without and with --delete --force-delete: changes while idle (edit, create, rename, nested create, delete) with pauses below/above the debounce; a change while the INITIAL "
                       "sync is held by --bwlimit; changes while a watch-triggered sync is held by --bwlimit; bursts of 40/120 creations with gaps of 0/10/120/550 ms, renames and a directory removal; "
                       "SIGINT while idle and during a sync. Convergence deadline %.0f s." % ([s[0] for s in SCENARIOS], DEADLINE))
    res.cov["trusted_base"] = TRUSTED_COMMON + ["inotify/notify delivering at least one Create/Modify/Remove event per change of a watched tree (the model's Change action)",
                                                 "the abstraction of the loop in Model/Watch.v (sync atomic w.r.t. the loop; time in iterations): tied to the source by the regenerated constants and shape anchors (WATCH_*), not by trace comparison",
                                                 "wall-clock deadlines of the process scenarios"]
    res.notes.append("Partial: liveness is proved for the model loop; on the implementation it is observed on scenarios with a deadline. Timing of events relative to syncs is controlled only through --bwlimit stretching.")
    for v in viol[:3]:
        res.violation("scenario", v)
    if not viol and pr["broken"]:
        res.violation("unproved", {"no_failing_input_found": True, "what_no_longer_checks": pr["broken"]}, no_input=True)
    return res.finish()


def replay(path):
    d = json.load(open(path))
    print(json.dumps(d, indent=1, default=str)[:3000])
    if "index" not in d:
        return 0
    vlib.build_impl()
    with vlib.Scratch() as sc:
        name, delete, fails, secs, log = run_scenario(sc, d.get("seed", 20260930), d["index"])
    print("replay: %s" % (fails or "no failure now"))
    return 1 if fails else 0
