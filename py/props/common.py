"""Steps shared by every property check: constants, proof build, audit."""
import os, re, json
import vlib


def proof_phase(res, pid, owners_consts=None, extra_targets=()):
    """Regenerate constants, build Properties/<pid>.vo (full .vo build), audit assumptions.
    Returns dict(ok, broken=[...], consts=...)."""
    broken = []
    consts = vlib.constants()
    for m in consts["missing"]:
        if pid in m["owners"]:
            broken.append("constant anchor no longer matches: %s in %s" % (m["name"], m["file"]))
    changed = {k: v for k, v in consts["changed"].items() if pid in v["owners"]}
    target = "Properties/%s.vo" % pid
    ok, out, secs = vlib.coq_make([target] + list(extra_targets))
    if not ok:
        m = re.findall(r'File "\./([^"]+)", line (\d+)', out)
        where = "%s:%s" % m[-1] if m else "?"
        err = out.strip().split("\n")[-12:]
        broken.append("proof obligation no longer checks at %s: %s" % (where, " | ".join(l.strip() for l in err if l.strip())[:600]))
    thms = vlib.theorem_names(target[:-1])
    forb = vlib.coq_forbidden_scan()
    if forb:
        broken.append("forbidden declarations in development: " + "; ".join(forb[:5]))
    aud, aud_out = (None, "")
    discharged = 0
    if ok:
        aud, aud_out = vlib.coq_audit(pid, thms)
        if aud is None:
            broken.append("audit failed: " + aud_out[-400:])
        else:
            bad = vlib.axioms_ok(aud)
            if bad:
                broken.append("unexpected axioms: " + "; ".join(bad))
            discharged = sum(1 for t in thms if t in aud) if not bad else 0
    res.cov["obligations"] = len(thms)
    res.cov["discharged"] = discharged if not forb else 0
    res.cov["theorems"] = [{"name": t, "assumptions": (aud[t]["axioms"] if aud and t in aud else None),
                            "closed": (aud[t]["closed"] if aud and t in aud else None)} for t in thms]
    res.cov["checker_cmd"] = "coq_makefile -f coq/_CoqProject && make -C coq %s (coqc 8.16.1, full .vo); Print Assumptions per theorem" % target
    res.cov["constants"] = {k: v for k, v in consts["values"].items()}
    if changed:
        res.cov["constants_changed"] = changed
    res.cov["proof_build_s"] = round(secs, 1)
    return {"ok": ok and not broken, "broken": broken, "consts": consts, "changed": changed}


TRUSTED_COMMON = [
    "Coq 8.16.1 kernel (coqc, vm_compute used for finite facts; no native_compute)",
    "py/gen_constants.py (regex extraction of literals from /repo/src into coq/gen/SrcConstants.v)",
    "extraction: ExtrOcamlBasic only, no Extract Constant/Inductive of our own; ocaml/driver.ml",
    "harness crate (harness/src/bin/*.rs) and the python comparators/generators",
    "rustc/cargo building /repo's working tree with --cfg nijaru_sy_verif",
]
