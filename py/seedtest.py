#!/usr/bin/env python3
"""Run checks against a seeded change: apply /verif/seeded/<name>/patch.diff to /repo, run the given
checks (quick tier), and undo the change straight afterwards.  usage: seedtest.py <name> <Cxx> [<Cyy> ...]"""
import os, subprocess, sys, json, time
HERE = os.path.dirname(os.path.dirname(os.path.abspath(__file__)))


def main():
    name, pids = sys.argv[1], sys.argv[2:]
    patch = os.path.join(HERE, "seeded", name, "patch.diff")
    assert subprocess.run(["git", "-C", "/repo", "status", "--porcelain", "--untracked-files=no"], stdout=subprocess.PIPE).stdout.strip() == b"", "/repo not clean"
    subprocess.run(["git", "-C", "/repo", "apply", patch], check=True)
    results = {}
    # the evidence files belong to runs on the UNCHANGED tree: keep them aside and put them back afterwards
    saved = {}
    for pid in pids:
        ev = os.path.join(HERE, "evidence", pid + ".json")
        saved[ev] = open(ev, "rb").read() if os.path.exists(ev) else None
    try:
        for pid in pids:
            t0 = time.time()
            p = subprocess.run([os.path.join(HERE, "check"), pid, "--tier", "quick"], cwd=HERE, stdout=subprocess.PIPE, stderr=subprocess.STDOUT)
            out = p.stdout.decode("utf-8", "replace")
            v = [l for l in out.split("\n") if l.startswith("VIOLATION")]
            results[pid] = {"rc": p.returncode, "violations": v, "secs": round(time.time() - t0, 1)}
            print(pid, "rc=%d" % p.returncode, "%.0fs" % (time.time() - t0))
            for l in v:
                print("   ", l)
    finally:
        subprocess.run(["git", "-C", "/repo", "checkout", "--", "."], check=True)
        for ev, data in saved.items():
            if data is not None:
                open(ev, "wb").write(data)
    json.dump(results, open(os.path.join(HERE, "seeded", name, "last_run.json"), "w"), indent=1)


if __name__ == "__main__":
    main()
