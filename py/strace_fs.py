"""Run a command under strace and extract the file-system MUTATIONS it performed (by path).
Used for footprint checks (C05: every path a transfer touches is its destination or its working file;
C09: validation of the crash shim's call list)."""
import os, re, subprocess

MUT_CALLS = ("open,openat,creat,rename,renameat,renameat2,unlink,unlinkat,rmdir,mkdir,mkdirat,truncate,ftruncate,"
             "utimensat,utimes,futimesat,utime,link,linkat,symlink,symlinkat,chmod,fchmod,fchmodat,chown,fchown,lchown,fchownat,"
             "setxattr,lsetxattr,fsetxattr,removexattr,lremovexattr,fremovexattr,write,pwrite64,writev,pwritev,pwritev2,"
             "copy_file_range,sendfile,fallocate,ioctl,mknod,mknodat")


def run_traced(argv, env, cwd, log, timeout=300):
    cmd = ["strace", "-f", "-y", "-s", "0", "-e", "trace=" + MUT_CALLS, "-e", "signal=none", "-o", log] + list(argv)
    p = subprocess.run(cmd, env=env, cwd=cwd, stdout=subprocess.PIPE, stderr=subprocess.PIPE, timeout=timeout)
    return p.returncode, p.stdout.decode("utf-8", "replace"), p.stderr.decode("utf-8", "replace")


_STR = r'"((?:[^"\\]|\\.)*)"'


def _unesc(s):
    return s.encode("latin-1", "backslashreplace").decode("unicode_escape").encode("latin-1", "replace").decode("utf-8", "replace") if "\\" in s else s


def _fdpath(tok):
    m = re.match(r"(?:AT_FDCWD|\d+)<([^>]*)>", tok.strip())
    return m.group(1) if m else None


def _resolve(dirtok, rel):
    rel = _unesc(rel)
    if rel.startswith("/"):
        return os.path.normpath(rel)
    base = _fdpath(dirtok) or ""
    return os.path.normpath(os.path.join(base, rel)) if rel else os.path.normpath(base)


def _split_args(a):
    """split top-level commas of a syscall argument string"""
    out, depth, cur, instr, esc = [], 0, "", False, False
    for ch in a:
        if instr:
            cur += ch
            if esc:
                esc = False
            elif ch == "\\":
                esc = True
            elif ch == '"':
                instr = False
            continue
        if ch == '"':
            instr = True; cur += ch
        elif ch in "([{<":
            depth += 1; cur += ch
        elif ch in ")]}>":
            depth -= 1; cur += ch
        elif ch == "," and depth == 0:
            out.append(cur.strip()); cur = ""
        else:
            cur += ch
    if cur.strip():
        out.append(cur.strip())
    return out


def _s(tok):
    m = re.match(_STR, tok.strip())
    return m.group(1) if m else ""


def parse(log):
    """-> list of dict(pid, call, kind, paths=[...], ok, raw) for mutating calls, in log order.
    kind: open-write | write | rename | unlink | mkdir | utime | truncate | link | symlink | chmod | xattr | other"""
    pending = {}
    evs = []
    for line in open(log, errors="replace"):
        m = re.match(r"(\d+)\s+(.*)$", line.rstrip("\n"))
        if not m:
            continue
        pid, rest = m.group(1), m.group(2)
        if rest.endswith("<unfinished ...>"):
            pending[pid] = rest[:-len("<unfinished ...>")]
            continue
        r = re.match(r"<\.\.\. (\w+) resumed>(.*)$", rest)
        if r:
            rest = pending.pop(pid, r.group(1) + "(") + r.group(2)
        m = re.match(r"(\w+)\((.*)\)\s+=\s+(-?\d+|\?)(.*)$", rest)
        if not m:
            continue
        call, args, ret = m.group(1), m.group(2), m.group(3)
        ok = ret not in ("-1", "?")
        a = _split_args(args)
        kind, paths = None, []
        try:
            if call in ("open", "creat"):
                flags = a[1] if call == "open" and len(a) > 1 else "O_WRONLY|O_CREAT|O_TRUNC"
                if re.search(r"O_WRONLY|O_RDWR|O_CREAT|O_TRUNC|O_APPEND", flags):
                    kind, paths = "open-write", [_resolve("", _s(a[0]))]
                    if "O_TRUNC" in flags:
                        kind = "open-trunc"
            elif call == "openat":
                flags = a[2] if len(a) > 2 else ""
                if re.search(r"O_WRONLY|O_RDWR|O_CREAT|O_TRUNC|O_APPEND", flags):
                    kind, paths = ("open-trunc" if "O_TRUNC" in flags else "open-write"), [_resolve(a[0], _s(a[1]))]
            elif call == "rename":
                kind, paths = "rename", [_resolve("", _s(a[0])), _resolve("", _s(a[1]))]
            elif call in ("renameat", "renameat2"):
                kind, paths = "rename", [_resolve(a[0], _s(a[1])), _resolve(a[2], _s(a[3]))]
            elif call in ("unlink", "rmdir"):
                kind, paths = "unlink", [_resolve("", _s(a[0]))]
            elif call == "unlinkat":
                kind, paths = "unlink", [_resolve(a[0], _s(a[1]))]
            elif call in ("mkdir", "mknod"):
                kind, paths = "mkdir", [_resolve("", _s(a[0]))]
            elif call in ("mkdirat", "mknodat"):
                kind, paths = "mkdir", [_resolve(a[0], _s(a[1]))]
            elif call in ("utimes", "utime"):
                kind, paths = "utime", [_resolve("", _s(a[0]))]
            elif call in ("utimensat", "futimesat"):
                p = _resolve(a[0], _s(a[1])) if a[1].strip().startswith('"') else (_fdpath(a[0]) or "")
                kind, paths = "utime", [p]
            elif call == "truncate":
                kind, paths = "truncate", [_resolve("", _s(a[0]))]
            elif call in ("ftruncate", "fallocate"):
                kind, paths = "truncate", [_fdpath(a[0]) or ""]
            elif call == "link":
                kind, paths = "link", [_resolve("", _s(a[0])), _resolve("", _s(a[1]))]
            elif call == "linkat":
                kind, paths = "link", [_resolve(a[0], _s(a[1])), _resolve(a[2], _s(a[3]))]
            elif call == "symlink":
                kind, paths = "symlink", [_resolve("", _s(a[1]))]
            elif call == "symlinkat":
                kind, paths = "symlink", [_resolve(a[1], _s(a[2]))]
            elif call in ("chmod", "chown", "lchown"):
                kind, paths = "chmod", [_resolve("", _s(a[0]))]
            elif call in ("fchmod", "fchown"):
                kind, paths = "chmod", [_fdpath(a[0]) or ""]
            elif call in ("fchmodat", "fchownat"):
                kind, paths = "chmod", [_resolve(a[0], _s(a[1]))]
            elif call in ("setxattr", "lsetxattr", "removexattr", "lremovexattr"):
                kind, paths = "xattr", [_resolve("", _s(a[0]))]
            elif call in ("fsetxattr", "fremovexattr"):
                kind, paths = "xattr", [_fdpath(a[0]) or ""]
            elif call in ("write", "pwrite64", "writev", "pwritev", "pwritev2"):
                kind, paths = "write", [_fdpath(a[0]) or ""]
            elif call in ("copy_file_range",):
                kind, paths = "write", [_fdpath(a[2]) or ""]
            elif call == "sendfile":
                kind, paths = "write", [_fdpath(a[0]) or ""]
            elif call == "ioctl":
                if len(a) > 1 and ("FICLONE" in a[1] or "FIDEDUPERANGE" in a[1]):
                    kind, paths = "write", [_fdpath(a[0]) or ""]
        except (IndexError, ValueError):
            kind, paths = "other", []
        if kind:
            evs.append({"pid": pid, "call": call, "kind": kind, "paths": paths, "ok": ok, "raw": rest[:200]})
    return evs


def under(path, root):
    root = os.path.normpath(root)
    return path == root or path.startswith(root + "/")
