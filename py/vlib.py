"""Shared machinery of the /verif checks: builds (Coq, extracted model, harness +
real binaries from /repo's working tree), process helpers, evidence writer,
violation reporting.  See DESIGN.md section 5."""
import fcntl, hashlib, json, os, re, resource, shutil, subprocess, sys, tempfile, time, random

VERIF = os.path.dirname(os.path.dirname(os.path.abspath(__file__)))
REPO = os.environ.get("SY_REPO", "/repo")
CACHE = os.path.join(VERIF, ".cache")
TARGET = os.path.join(CACHE, "target")
BIN = os.path.join(TARGET, "debug")
COQ = os.path.join(VERIF, "coq")
OCAML_GEN = os.path.join(CACHE, "ocaml")
MODEL_BIN = os.path.join(OCAML_GEN, "sy_model")
REPLAYS = os.path.join(VERIF, "replays")
EVID = os.path.join(VERIF, "evidence")
GUARD = "nijaru_sy_verif"
NCPU = os.cpu_count() or 4

sys.path.insert(0, os.path.join(VERIF, "py"))
import gen_constants  # noqa: E402

ALLOWED_AXIOMS = {
    # standard-library axioms that may appear under Print Assumptions (named in DESIGN.md section 8)
    "Classical_Prop.classic",
    "ClassicalDedekindReals.sig_forall_dec",
    "ClassicalDedekindReals.sig_not_dec",
    "FunctionalExtensionality.functional_extensionality_dep",
}
# primitive (kernel) constants of Uint63/PrimFloat are reported by Print Assumptions too; they are not axioms of ours
PRIMITIVE_PREFIXES = ("Uint63.", "PrimInt63.", "PrimFloat.", "FloatAxioms.", "FloatOps.", "Sint63.", "PrimString.", "PArray.",
                      "Uint63Axioms.", "Sint63Axioms.", "FloatLemmas.")


class Lock:
    def __init__(self, name):
        os.makedirs(CACHE, exist_ok=True)
        self.path = os.path.join(CACHE, name + ".lock")

    def __enter__(self):
        self.f = open(self.path, "w")
        fcntl.flock(self.f, fcntl.LOCK_EX)
        return self

    def __exit__(self, *a):
        fcntl.flock(self.f, fcntl.LOCK_UN)
        self.f.close()


def sh(cmd, timeout=None, cwd=None, env=None, inp=None, check=False):
    e = dict(os.environ)
    if env:
        e.update(env)
    p = subprocess.run(cmd, shell=isinstance(cmd, str), cwd=cwd, env=e, input=inp, stdout=subprocess.PIPE,
                       stderr=subprocess.STDOUT, timeout=timeout)
    out = p.stdout.decode("utf-8", "replace") if isinstance(p.stdout, bytes) else p.stdout
    if check and p.returncode != 0:
        raise RuntimeError("command failed (%d): %s\n%s" % (p.returncode, cmd, out[-4000:]))
    return p.returncode, out


def file_hash(paths):
    h = hashlib.sha256()
    for p in sorted(paths):
        h.update(p.encode())
        try:
            h.update(open(p, "rb").read())
        except OSError:
            h.update(b"<missing>")
    return h.hexdigest()


# ------------------------------------------------------------------ constants
def constants():
    with Lock("coq"):
        return gen_constants.generate()


# ------------------------------------------------------------------ Coq build
def coq_files():
    out = []
    for line in open(os.path.join(COQ, "_CoqProject")):
        line = line.strip()
        if line.endswith(".v"):
            out.append(line)
    return out


def coq_make(targets, timeout=1500):
    """Full .vo build of the given targets (relative to coq/) through coq_makefile."""
    with Lock("coq"):
        gen_constants.generate()
        mk = os.path.join(COQ, "Makefile")
        cp = os.path.join(COQ, "_CoqProject")
        if not os.path.exists(mk) or os.path.getmtime(mk) < os.path.getmtime(cp):
            sh("coq_makefile -f _CoqProject -o Makefile", cwd=COQ, timeout=120, check=True)
        t0 = time.time()
        try:
            rc, out = sh(["timeout", str(timeout), "make", "-j%d" % NCPU] + list(targets), cwd=COQ, timeout=timeout + 30)
        except subprocess.TimeoutExpired:
            rc, out = 124, "make timed out"
        return rc == 0, out, time.time() - t0


def theorem_names(vfile):
    src = open(os.path.join(COQ, vfile)).read()
    src = re.sub(r"\(\*.*?\*\)", "", src, flags=re.S)
    return re.findall(r"^\s*(?:Theorem|Corollary)\s+([A-Za-z0-9_']+)", src, flags=re.M)


FORBIDDEN = re.compile(r"\b(Admitted|admit|Axiom|Axioms|Parameter|Parameters|Conjecture|Conjectures|Admit Obligations|Unset Guard Checking|"
                       r"Unset Positivity Checking|Unset Universe Checking|bypass_check|type-in-type|impredicative-set)\b")


def coq_forbidden_scan():
    """grep the whole development for declarations that would add to the trusted base."""
    hits = []
    for root, _, files in os.walk(COQ):
        for f in files:
            if not f.endswith(".v"):
                continue
            p = os.path.join(root, f)
            src = open(p, encoding="utf-8", errors="replace").read()
            nocom = re.sub(r"\(\*.*?\*\)", lambda m: " " * len(m.group(0)), src, flags=re.S)
            for m in FORBIDDEN.finditer(nocom):
                line = nocom.count("\n", 0, m.start()) + 1
                hits.append("%s:%d:%s" % (os.path.relpath(p, VERIF), line, m.group(0)))
            # Variable/Hypothesis outside a section
            depth = 0
            for ln, text in enumerate(nocom.split("\n"), 1):
                if re.match(r"\s*Section\s+\w+", text):
                    depth += 1
                elif re.match(r"\s*End\s+\w+", text) and depth > 0:
                    depth -= 1
                elif depth == 0 and re.match(r"\s*(Variable|Variables|Hypothesis|Hypotheses|Context)\b", text):
                    hits.append("%s:%d:section-less %s" % (os.path.relpath(p, VERIF), ln, text.strip()[:40]))
    _, cp = sh("cat _CoqProject", cwd=COQ)
    for bad in ("-type-in-type", "-impredicative-set", "-vos", "-vok"):
        if bad in cp:
            hits.append("_CoqProject:" + bad)
    return hits


def coq_audit(prop_module, theorems):
    """Print Assumptions for every property theorem, from the compiled .vo files."""
    d = os.path.join(CACHE, "audit")
    os.makedirs(d, exist_ok=True)
    name = "Audit_" + prop_module
    v = os.path.join(d, name + ".v")
    with open(v, "w") as f:
        f.write("From SyProps Require Import %s.\n" % prop_module)
        for t in theorems:
            f.write('Goal True. idtac "@@THM %s". exact I. Qed.\nPrint Assumptions %s.\n' % (t, t))
    with Lock("coq"):
        rc, out = sh(["timeout", "600", "coqc", "-Q", os.path.join(COQ, "gen"), "SyGen", "-Q", os.path.join(COQ, "Model"), "SyModel",
                      "-Q", os.path.join(COQ, "Proofs"), "SyProofs", "-Q", os.path.join(COQ, "Properties"), "SyProps", v], cwd=d, timeout=700)
    res = {}
    if rc != 0:
        return None, out
    cur = None
    for line in out.split("\n"):
        m = re.match(r"@@THM (\S+)", line)
        if m:
            cur = m.group(1)
            res[cur] = {"closed": False, "axioms": []}
            continue
        if cur is None:
            continue
        if "Closed under the global context" in line:
            res[cur]["closed"] = True
        m = re.match(r"^([A-Za-z_][A-Za-z0-9_'.]*)\s*(:|$)", line)
        if m and not line.startswith("Axioms") and not line.startswith("Closed"):
            res[cur]["axioms"].append(m.group(1))
    return res, out


def axioms_ok(aud):
    bad = []
    for thm, r in aud.items():
        for a in r["axioms"]:
            if a in ALLOWED_AXIOMS or a.startswith(PRIMITIVE_PREFIXES):
                continue
            bad.append("%s depends on %s" % (thm, a))
    return bad


# ------------------------------------------------------------------ model (OCaml extraction)
def build_model():
    with Lock("coq"):
        gen_constants.generate()
    ok, out, _ = coq_make([f[:-2] + ".vo" for f in coq_files() if f.startswith("Model/") or f.startswith("gen/")])
    if not ok:
        return False, out
    with Lock("ocaml"):
        os.makedirs(OCAML_GEN, exist_ok=True)
        srcs = [os.path.join(COQ, f) for f in coq_files() if f.startswith("Model/") or f.startswith("gen/")]
        srcs += [os.path.join(COQ, "Extract", "Extract.v"), os.path.join(VERIF, "ocaml", "driver.ml")]
        h = file_hash(srcs)
        stamp = os.path.join(OCAML_GEN, "stamp")
        if os.path.exists(MODEL_BIN) and os.path.exists(stamp) and open(stamp).read() == h:
            return True, "cached"
        shutil.copy(os.path.join(COQ, "Extract", "Extract.v"), os.path.join(OCAML_GEN, "Extract.v"))
        rc, out = sh(["timeout", "600", "coqc", "-Q", os.path.join(COQ, "gen"), "SyGen", "-Q", os.path.join(COQ, "Model"), "SyModel",
                      "Extract.v"], cwd=OCAML_GEN, timeout=700)
        if rc != 0:
            return False, out
        shutil.copy(os.path.join(VERIF, "ocaml", "driver.ml"), os.path.join(OCAML_GEN, "driver.ml"))
        rc, out2 = sh("timeout 600 ocamlfind ocamlopt -O3 -w -a model.mli model.ml driver.ml -o sy_model", cwd=OCAML_GEN, timeout=700)
        if rc != 0:
            return False, out + out2
        open(stamp, "w").write(h)
        return True, out + out2


def _unlimit_stack():
    try:
        resource.setrlimit(resource.RLIMIT_STACK, (resource.RLIM_INFINITY, resource.RLIM_INFINITY))
    except Exception:
        pass


def run_lines(cmd, text, env=None, timeout=1800, cwd=None):
    e = dict(os.environ)
    if env:
        e.update(env)
    p = subprocess.run(cmd, input=text.encode(), stdout=subprocess.PIPE, stderr=subprocess.PIPE, env=e, timeout=timeout,
                       preexec_fn=_unlimit_stack, cwd=cwd)
    return p.returncode, p.stdout.decode("utf-8", "replace").split("\n")[:-1], p.stderr.decode("utf-8", "replace")


def run_model(cases, timeout=1800, shards=None):
    return run_sharded([MODEL_BIN], cases, timeout=timeout, shards=shards)


def run_sharded(cmd, cases, env=None, timeout=1800, shards=None):
    """cases: list of lines.  Runs `cmd` over contiguous shards in parallel, returns one output line per case."""
    import concurrent.futures as cf
    n = len(cases)
    if n == 0:
        return []
    k = shards or min(NCPU, max(1, n // 4))
    # round-robin so that expensive neighbouring cases land on different workers
    parts = [cases[i::k] for i in range(k)]

    def one(part):
        if not part:
            return []
        rc, lines, err = run_lines(cmd, "\n".join(part) + "\n", env=env, timeout=timeout)
        if len(lines) != len(part):
            lines = lines + ["CRASH rc=%d %s" % (rc, err.strip()[-200:].replace("\n", " "))] * (len(part) - len(lines))
        return lines
    with cf.ThreadPoolExecutor(max_workers=k) as ex:
        res = list(ex.map(one, parts))
    out = [None] * n
    for i in range(k):
        out[i::k] = res[i]
    return out


# ------------------------------------------------------------------ implementation build (harness crate + real binaries)
def _deps_from_repo():
    src = open(os.path.join(REPO, "Cargo.toml")).read()
    out = []
    keep = False
    for line in src.split("\n"):
        m = re.match(r"\s*\[(.+)\]\s*$", line)
        if m:
            sec = m.group(1)
            keep = sec == "dependencies" or (sec.startswith("target.") and sec.endswith(".dependencies"))
            if keep and sec != "dependencies":
                out.append("\n[" + sec + "]")
            continue
        if keep:
            out.append(line)
    return "\n".join(out)


# harness bins needed only by the listed properties (every other bin, and sy / sy-remote, are needed by all)
BIN_OWNERS = {"h_temp": ("C05", "C09"), "h_cache": ("C18",)}
CURRENT_PID = None


def build_impl(timeout=3000):
    """Build the harness bins and the real sy / sy-remote from /repo's working tree, hooks on.  Never runs cargo inside /repo."""
    hdir = os.path.join(VERIF, "harness")
    with Lock("cargo"):
        os.makedirs(CACHE, exist_ok=True)
        tmpl = open(os.path.join(hdir, "Cargo.toml.in")).read()
        bins = sorted(f[:-3] for f in os.listdir(os.path.join(hdir, "src", "bin")) if f.endswith(".rs"))
        hb = "\n".join('[[bin]]\nname = "%s"\npath = "src/bin/%s.rs"\n' % (b, b) for b in bins)
        text = tmpl.replace("@REPO@", REPO).replace("@HBINS@", hb) + _deps_from_repo() + "\n"
        ct = os.path.join(hdir, "Cargo.toml")
        if not os.path.exists(ct) or open(ct).read() != text:
            open(ct, "w").write(text)
        lock_src = os.path.join(REPO, "Cargo.lock")
        lock_dst = os.path.join(hdir, "Cargo.lock")
        stamp = os.path.join(CACHE, "lock.stamp")
        h = file_hash([lock_src])
        if not os.path.exists(lock_dst) or not os.path.exists(stamp) or open(stamp).read() != h:
            shutil.copy(lock_src, lock_dst)
            open(stamp, "w").write(h)
        env = {"CARGO_NET_OFFLINE": "true", "CARGO_TARGET_DIR": TARGET, "RUSTFLAGS": "--cfg %s -Awarnings" % GUARD,
               "CARGO_TERM_COLOR": "never"}
        t0 = time.time()
        try:
            rc, out = sh(["timeout", str(timeout), "cargo", "build", "--offline", "--bins", "-j", str(NCPU)], cwd=hdir, env=env,
                         timeout=timeout + 30)
            if rc != 0 and rc != 124:
                # a harness bin that only some properties need may stop compiling (e.g. the function it calls was
                # renamed): build the rest, and fail only the properties that own the broken bin
                rc2, out2 = sh(["timeout", str(timeout), "cargo", "build", "--offline", "--bins", "--keep-going", "-j", str(NCPU)],
                               cwd=hdir, env=env, timeout=timeout + 30)
                failed = set(re.findall(r'could not compile `[^`]+` \(bin "([^"]+)"\)', out2))
                if failed and all(b in BIN_OWNERS and CURRENT_PID not in BIN_OWNERS[b] for b in failed):
                    rc, out = 0, out2
                else:
                    out = out2
        except subprocess.TimeoutExpired:
            rc, out = 124, "cargo timed out"
        return rc == 0, out, time.time() - t0


# ------------------------------------------------------------------ scratch
class Scratch:
    """mktemp -d under /var/tmp (real ext4), removed on exit; private HOME / XDG dirs."""

    def __enter__(self):
        self.dir = tempfile.mkdtemp(prefix="syverif.", dir="/var/tmp")
        for d in ("home", "home/.cache", "home/.config"):
            os.makedirs(os.path.join(self.dir, d))
        self.env = {"HOME": os.path.join(self.dir, "home"), "XDG_CACHE_HOME": os.path.join(self.dir, "home/.cache"),
                    "XDG_CONFIG_HOME": os.path.join(self.dir, "home/.config"), "NO_COLOR": "1", "RUST_LOG": ""}
        return self

    def __exit__(self, *a):
        shutil.rmtree(self.dir, ignore_errors=True)


# ------------------------------------------------------------------ results
class Result:
    def __init__(self, pid, tier, seed):
        self.pid, self.tier, self.seed = pid, tier, seed
        self.t0 = time.time()
        if os.path.isdir(REPLAYS):
            for f in os.listdir(REPLAYS):
                if f.startswith(pid + "-"):
                    try:
                        os.remove(os.path.join(REPLAYS, f))
                    except OSError:
                        pass
        self.violations = []      # (replay_path, suffix)
        self.known = []           # strings
        self.cov = {"evaluations": 0, "distinct_nontrivial": 0, "rule": "", "samples": [], "obligations": 0, "discharged": 0,
                    "checker_cmd": "", "trusted_base": []}
        self.assumptions = []
        self.notes = []

    def violation(self, label, payload, no_input=False):
        os.makedirs(REPLAYS, exist_ok=True)
        p = os.path.join(REPLAYS, "%s-%s-%d-%d.case" % (self.pid, label, self.seed, len(self.violations)))
        with open(p, "w") as f:
            if isinstance(payload, str):
                f.write(payload)
            else:
                json.dump(payload, f, indent=1, default=str)
            f.write("\n")
        self.violations.append((p, " no-failing-input-found" if no_input else ""))
        return p

    def finish(self, level="proof"):
        self.cov["wall_s"] = round(time.time() - self.t0, 2)
        ev = {"property_id": self.pid, "tier": self.tier, "seed": self.seed, "level": level, "coverage": self.cov,
              "assumptions": self.assumptions, "wall_s": round(time.time() - self.t0, 2), "violations": len(self.violations)}
        if self.notes:
            ev["coverage"]["notes"] = self.notes
        os.makedirs(EVID, exist_ok=True)
        tmp = os.path.join(EVID, self.pid + ".json.tmp")
        with open(tmp, "w") as f:
            json.dump(ev, f, indent=1, default=str)
            f.write("\n")
        os.replace(tmp, os.path.join(EVID, self.pid + ".json"))
        for k in self.known:
            print("KNOWN-FINDING: property=%s %s" % (self.pid, k))
        for (p, suf) in self.violations:
            print("VIOLATION property=%s replay=%s%s" % (self.pid, p, suf))
        sys.stdout.flush()
        return 1 if self.violations else 0


def load_known():
    p = os.path.join(VERIF, "known_findings.json")
    try:
        return json.load(open(p))
    except OSError:
        return {"findings": [], "fixed": []}


def rng_for(seed, label):
    return random.Random("%d/%s" % (seed, label))


def hexs(b):
    return b.hex() if b else "-"


# ------------------------------------------------------------------ evaluating model terms inside Coq (no extraction in the path)
def coq_eval_list(requires, list_expr, tag="ev"):
    """vm_compute a Coq term of type list bool / list Z inside coqc; returns the printed elements as strings."""
    d = os.path.join(CACHE, "eval")
    os.makedirs(d, exist_ok=True)
    v = os.path.join(d, "%s_%d.v" % (tag, os.getpid()))
    with open(v, "w") as f:
        f.write(requires + "\nEval vm_compute in (%s).\n" % list_expr)
    with Lock("coq"):
        rc, out = sh(["timeout", "900", "coqc", "-noglob", "-Q", os.path.join(COQ, "gen"), "SyGen", "-Q", os.path.join(COQ, "Model"), "SyModel", v],
                     cwd=d, timeout=1000)
    for ext in (".v", ".vo", ".vok", ".vos"):
        try:
            os.remove(v[:-2] + ext)
        except OSError:
            pass
    if rc != 0:
        raise RuntimeError("coqc eval failed: " + out[-2000:])
    m = re.search(r"=\s*\[(.*?)\]\s*:\s*list", out, flags=re.S)
    if not m:
        if re.search(r"=\s*(nil|\[\s*\])", out):
            return []
        raise RuntimeError("cannot parse coqc output: " + out[-500:])
    return [x.strip() for x in m.group(1).replace("\n", " ").split(";") if x.strip()]
