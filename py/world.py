"""Worlds on the real file system: build trees from specs, snapshot them, run the real sy binary."""
import hashlib, os, random, shutil, stat, subprocess, sys, time
import vlib

SY = os.path.join(vlib.BIN, "sy")
SY_REMOTE = os.path.join(vlib.BIN, "sy-remote")
T0 = 1_600_000_000  # base mtime (2020-09-13), far in the past so that "fresh" times are recognisable


def pbytes(seed, n):
    """deterministic pseudo-random bytes"""
    if n == 0:
        return b""
    return random.Random(seed).randbytes(n)


def mk_tree(root, spec):
    """spec: list of dicts
       {"p": rel, "k": "d"|"f"|"l"|"h", "data": bytes | ("rand", seed, size), "mt": seconds(float) offset from T0,
        "target": str (symlinks), "to": rel (hard link to an earlier file), "xattr": {name: bytes}, "holes": total_size (sparse)}"""
    os.makedirs(root, exist_ok=True)
    later = []
    for e in spec:
        p = os.path.join(root, e["p"])
        k = e["k"]
        if k == "d":
            os.makedirs(p, exist_ok=True)
        elif k == "f":
            os.makedirs(os.path.dirname(p), exist_ok=True)
            d = e.get("data", b"")
            if isinstance(d, tuple):
                d = pbytes(d[1], d[2])
            with open(p, "wb") as f:
                if "regions" in e:      # sparse: list of (offset, bytes); total size e["size"]
                    f.truncate(e["size"])
                    for off, blob in e["regions"]:
                        f.seek(off)
                        f.write(blob)
                else:
                    f.write(d)
                f.flush()
                os.fsync(f.fileno())
            for n, v in e.get("xattr", {}).items():
                os.setxattr(p, n, v)
        elif k == "l":
            os.makedirs(os.path.dirname(p), exist_ok=True)
            os.symlink(e["target"], p)
        elif k == "h":
            os.makedirs(os.path.dirname(p), exist_ok=True)
            os.link(os.path.join(root, e["to"]), p)
        later.append((p, e))
    # mtimes last, deepest first (creating children changes directory mtimes)
    for p, e in sorted(later, key=lambda x: -x[0].count("/")):
        if "mt" in e:
            ns = int(round((T0 + e["mt"]) * 1e9))
            os.utime(p, ns=(ns, ns), follow_symlinks=False)


def sha(path):
    h = hashlib.sha1()
    with open(path, "rb") as f:
        for b in iter(lambda: f.read(1 << 20), b""):
            h.update(b)
    return h.hexdigest()[:16]


def snapshot(root, content=True):
    """rel path -> dict(kind, size, sha, mtime_ns, target, ino, nlink, mode, xattr)"""
    out = {}
    if not os.path.lexists(root):
        return out
    st = os.lstat(root)
    if not stat.S_ISDIR(st.st_mode):
        out["."] = _ent(root, st, content)
        return out
    for dp, dns, fns in os.walk(root):
        for n in dns + fns:
            p = os.path.join(dp, n)
            rel = os.path.relpath(p, root)
            out[rel] = _ent(p, os.lstat(p), content)
    return out


def _ent(p, st, content):
    if stat.S_ISLNK(st.st_mode):
        return {"kind": "l", "target": os.readlink(p), "mtime_ns": st.st_mtime_ns, "ino": st.st_ino}
    if stat.S_ISDIR(st.st_mode):
        return {"kind": "d", "mtime_ns": st.st_mtime_ns, "ino": st.st_ino, "size": st.st_size}
    e = {"kind": "f", "size": st.st_size, "mtime_ns": st.st_mtime_ns, "ino": st.st_ino, "nlink": st.st_nlink,
         "mode": stat.S_IMODE(st.st_mode), "blocks": st.st_blocks}
    if content:
        e["sha"] = sha(p)
    try:
        xs = os.listxattr(p)
        if xs:
            e["xattr"] = {n: os.getxattr(p, n).hex() for n in sorted(xs)}
    except OSError:
        pass
    return e


def run_sy(args, scratch, cwd=None, timeout=120, stdin=None):
    env = dict(os.environ)
    env.update(scratch.env)
    env.pop("RUST_LOG", None)
    t0 = time.time()
    try:
        p = subprocess.run([SY] + list(args), cwd=cwd or scratch.dir, env=env, stdout=subprocess.PIPE, stderr=subprocess.PIPE,
                           timeout=timeout, input=stdin)
        return {"rc": p.returncode, "out": p.stdout.decode("utf-8", "replace"), "err": p.stderr.decode("utf-8", "replace"),
                "secs": time.time() - t0, "timeout": False}
    except subprocess.TimeoutExpired as ex:
        return {"rc": None, "out": (ex.stdout or b"").decode("utf-8", "replace"), "err": (ex.stderr or b"").decode("utf-8", "replace"),
                "secs": time.time() - t0, "timeout": True}


def sync_fs():
    os.sync()


def diff_snap(a, b, ignore=("ino",)):
    """paths whose entries differ between two snapshots (ignoring the listed keys)"""
    out = []
    for k in sorted(set(a) | set(b)):
        x, y = a.get(k), b.get(k)
        if x is None or y is None:
            out.append(k)
            continue
        xx = {i: v for i, v in x.items() if i not in ignore}
        yy = {i: v for i, v in y.items() if i not in ignore}
        if xx != yy:
            out.append(k)
    return out
