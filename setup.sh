#!/bin/sh
# Build the framework from files on disk only (offline): Coq development (full .vo),
# extracted model, harness + the real binaries from /repo's working tree (hooks on).
set -e
cd "$(dirname "$0")"
export CARGO_NET_OFFLINE=true
python3 - <<'PY'
import sys, os
sys.path.insert(0, "py")
import vlib
ok, out, t = vlib.coq_make([f[:-2] + ".vo" for f in vlib.coq_files()], timeout=3000)
print("coq: ok=%s %.0fs" % (ok, t))
if not ok:
    print(out[-3000:]); sys.exit(1)
ok, out = vlib.build_model()
print("model: ok=%s" % ok)
if not ok:
    print(out[-3000:]); sys.exit(1)
ok, out, t = vlib.build_impl()
print("impl: ok=%s %.0fs" % (ok, t))
if not ok:
    print(out[-3000:]); sys.exit(1)
PY
