/* LD_PRELOAD crash / fault shim for the C09 and C10 checks.
   Numbers the file-system MUTATING libc calls that touch a path below $SY_CRASH_ROOT, appends one line per such
   call to $SY_CRASH_LOG *before* performing it ("k<TAB>name<TAB>path[<TAB>path2]"), and when the number reaches
   $SY_CRASH_AT calls _exit(137) INSTEAD of performing the call: the process dies at the boundary just before
   its k-th mutating call (no destructors, no atexit handlers, no buffered output flushed -- as after SIGKILL). */
#define _GNU_SOURCE
#include <dlfcn.h>
#include <errno.h>
#include <fcntl.h>
#include <limits.h>
#include <stdarg.h>
#include <stdio.h>
#include <stdlib.h>
#include <string.h>
#include <sys/stat.h>
#include <sys/syscall.h>
#include <sys/types.h>
#include <sys/uio.h>
#include <unistd.h>

static long counter = 0;
static long crash_at = -1;
static long fail_at = -1;
static long fail_at2 = -1;
static long corrupt_at = 0;          /* SY_CORRUPT_AT=k: the k-th mutating call, if it writes data, is performed and one byte of what it wrote is flipped */
static __thread int corrupt_now = 0;
static int fail_errno = 5;
static int log_fd = -2;
static char root[PATH_MAX];
static size_t root_len = 0;
static int inited = 0;

/* runs when the library is loaded, before the program has any thread: a lazy first-call initialisation raced under -j4 (a second
   thread could pass the flag while the first was still reading the environment, and its call was neither logged nor failed) */
__attribute__((constructor)) static void init(void) {
    if (inited) return;
    inited = 1;
    const char *r = getenv("SY_CRASH_ROOT");
    if (r) { strncpy(root, r, sizeof root - 1); root_len = strlen(root); }
    const char *a = getenv("SY_CRASH_AT");
    crash_at = a ? atol(a) : 0;
    const char *fa = getenv("SY_FAIL_AT");
    fail_at = fa ? atol(fa) : 0;
    { const char *c = fa ? strchr(fa, ',') : NULL; fail_at2 = c ? atol(c + 1) : 0; }   /* SY_FAIL_AT=k1,k2: two faults */
    const char *ca = getenv("SY_CORRUPT_AT");
    corrupt_at = ca ? atol(ca) : 0;
    const char *fe = getenv("SY_FAIL_ERRNO");
    fail_errno = fe ? atoi(fe) : EIO;
    const char *l = getenv("SY_CRASH_LOG");
    log_fd = l ? (int)syscall(SYS_openat, AT_FDCWD, l, O_WRONLY | O_CREAT | O_APPEND | O_CLOEXEC, 0644) : -1;
}

static int under_root(const char *p) {
    return root_len && p && strncmp(p, root, root_len) == 0 && (p[root_len] == '/' || p[root_len] == 0);
}

static const char *fd_path(int fd, char *buf) {
    char lk[64];
    snprintf(lk, sizeof lk, "/proc/self/fd/%d", fd);
    ssize_t n = syscall(SYS_readlinkat, AT_FDCWD, lk, buf, PATH_MAX - 1);
    if (n <= 0) return NULL;
    buf[n] = 0;
    return buf;
}

static const char *at_path(int dirfd, const char *p, char *buf) {
    if (!p) return NULL;
    if (p[0] == '/') return p;
    char base[PATH_MAX];
    if (dirfd == AT_FDCWD) {
        if (syscall(SYS_getcwd, base, sizeof base) <= 0) return NULL;
    } else if (!fd_path(dirfd, base)) return NULL;
    snprintf(buf, PATH_MAX, "%s/%s", base, p);
    return buf;
}

/* called before a mutating call on path p (and q); dies here when this is call number crash_at; returns 1 when this is call
   number $SY_FAIL_AT: the caller then fails with errno $SY_FAIL_ERRNO INSTEAD of performing the call */
static int hit(const char *name, const char *p, const char *q) {
    init();
    int u = under_root(p) || under_root(q);
    if (!u) return 0;
    long k = __atomic_add_fetch(&counter, 1, __ATOMIC_SEQ_CST);
    if (log_fd >= 0) {
        char line[2 * PATH_MAX + 128];
        int n = snprintf(line, sizeof line, "%ld\t%s\t%s\t%s\t%ld\n", k, name, p ? p : "", q ? q : "", (long)syscall(SYS_gettid));
        if (n > 0) syscall(SYS_write, log_fd, line, (size_t)n);
    }
    if (crash_at > 0 && k == crash_at) {
        if (log_fd >= 0) syscall(SYS_write, log_fd, "KILLED\n", 7);
        syscall(SYS_exit_group, 137);
    }
    if (corrupt_at > 0 && k == corrupt_at && name[0] == 'w') {          /* only a data call (write / copy_file_range) can be corrupted */
        if (log_fd >= 0) syscall(SYS_write, log_fd, "CORRUPTED\n", 10);
        corrupt_now = 1;
    }
    if ((fail_at > 0 && k == fail_at) || (fail_at2 > 0 && k == fail_at2)) {
        if (log_fd >= 0) syscall(SYS_write, log_fd, "FAILED\n", 7);
        errno = fail_errno;
        return 1;
    }
    return 0;
}

/* silent corruption for C10: after the data call, flip one byte in the middle of what it has just written to fd */
static void flip_written(int fd, ssize_t r) {
    if (!corrupt_now) return;
    if (r <= 0) return;                       /* a probe or a failed call: the next data call of this thread takes it */
    corrupt_now = 0;
    off_t end = lseek(fd, 0, SEEK_CUR);
    if (end < r) return;
    off_t at = end - r + r / 2;
    char pb[PATH_MAX];
    const char *p = fd_path(fd, pb);            /* the data fd is usually write-only: a second descriptor through the raw system call */
    if (!p) return;
    int fd2 = (int)syscall(SYS_openat, AT_FDCWD, p, O_RDWR | O_CLOEXEC, 0);
    if (fd2 < 0) return;
    unsigned char c;
    if (pread(fd2, &c, 1, at) == 1) { c ^= 0x5A; (void)!pwrite(fd2, &c, 1, at); }
    syscall(SYS_close, fd2);
}

#define REAL(name) static __typeof__(name) *real = NULL; if (!real) real = (__typeof__(name) *)dlsym(RTLD_NEXT, #name)

static int wants_write(int flags) { return (flags & (O_WRONLY | O_RDWR | O_CREAT | O_TRUNC | O_APPEND)) != 0; }

int open(const char *p, int flags, ...) {
    REAL(open); mode_t m = 0; if (flags & (O_CREAT | O_TMPFILE)) { va_list ap; va_start(ap, flags); m = va_arg(ap, mode_t); va_end(ap); }
    char b[PATH_MAX]; if (wants_write(flags)) if (hit((flags & O_TRUNC) ? "open-trunc" : "open-write", at_path(AT_FDCWD, p, b), NULL)) return -1;
    return real(p, flags, m);
}
int open64(const char *p, int flags, ...) {
    REAL(open64); mode_t m = 0; if (flags & (O_CREAT | O_TMPFILE)) { va_list ap; va_start(ap, flags); m = va_arg(ap, mode_t); va_end(ap); }
    char b[PATH_MAX]; if (wants_write(flags)) if (hit((flags & O_TRUNC) ? "open-trunc" : "open-write", at_path(AT_FDCWD, p, b), NULL)) return -1;
    return real(p, flags, m);
}
int openat(int d, const char *p, int flags, ...) {
    REAL(openat); mode_t m = 0; if (flags & (O_CREAT | O_TMPFILE)) { va_list ap; va_start(ap, flags); m = va_arg(ap, mode_t); va_end(ap); }
    char b[PATH_MAX]; if (wants_write(flags)) if (hit((flags & O_TRUNC) ? "open-trunc" : "open-write", at_path(d, p, b), NULL)) return -1;
    return real(d, p, flags, m);
}
int openat64(int d, const char *p, int flags, ...) {
    REAL(openat64); mode_t m = 0; if (flags & (O_CREAT | O_TMPFILE)) { va_list ap; va_start(ap, flags); m = va_arg(ap, mode_t); va_end(ap); }
    char b[PATH_MAX]; if (wants_write(flags)) if (hit((flags & O_TRUNC) ? "open-trunc" : "open-write", at_path(d, p, b), NULL)) return -1;
    return real(d, p, flags, m);
}
int creat(const char *p, mode_t m) { REAL(creat); char b[PATH_MAX]; if (hit("open-trunc", at_path(AT_FDCWD, p, b), NULL)) return -1; return real(p, m); }
int creat64(const char *p, mode_t m) { REAL(creat64); char b[PATH_MAX]; if (hit("open-trunc", at_path(AT_FDCWD, p, b), NULL)) return -1; return real(p, m); }

int rename(const char *a, const char *b2) { REAL(rename); char b[PATH_MAX], c[PATH_MAX]; if (hit("rename", at_path(AT_FDCWD, a, b), at_path(AT_FDCWD, b2, c))) return -1; return real(a, b2); }
int renameat(int d1, const char *a, int d2, const char *b2) { REAL(renameat); char b[PATH_MAX], c[PATH_MAX]; if (hit("rename", at_path(d1, a, b), at_path(d2, b2, c))) return -1; return real(d1, a, d2, b2); }
int renameat2(int d1, const char *a, int d2, const char *b2, unsigned int f) { REAL(renameat2); char b[PATH_MAX], c[PATH_MAX]; if (hit("rename", at_path(d1, a, b), at_path(d2, b2, c))) return -1; return real(d1, a, d2, b2, f); }
int unlink(const char *p) { REAL(unlink); char b[PATH_MAX]; if (hit("unlink", at_path(AT_FDCWD, p, b), NULL)) return -1; return real(p); }
int unlinkat(int d, const char *p, int f) { REAL(unlinkat); char b[PATH_MAX]; if (hit((f & AT_REMOVEDIR) ? "rmdir" : "unlink", at_path(d, p, b), NULL)) return -1; return real(d, p, f); }
int rmdir(const char *p) { REAL(rmdir); char b[PATH_MAX]; if (hit("rmdir", at_path(AT_FDCWD, p, b), NULL)) return -1; return real(p); }
int mkdir(const char *p, mode_t m) { REAL(mkdir); char b[PATH_MAX]; if (hit("mkdir", at_path(AT_FDCWD, p, b), NULL)) return -1; return real(p, m); }
int mkdirat(int d, const char *p, mode_t m) { REAL(mkdirat); char b[PATH_MAX]; if (hit("mkdir", at_path(d, p, b), NULL)) return -1; return real(d, p, m); }
int truncate(const char *p, off_t l) { REAL(truncate); char b[PATH_MAX]; if (hit("truncate", at_path(AT_FDCWD, p, b), NULL)) return -1; return real(p, l); }
int truncate64(const char *p, off64_t l) { REAL(truncate64); char b[PATH_MAX]; if (hit("truncate", at_path(AT_FDCWD, p, b), NULL)) return -1; return real(p, l); }
int ftruncate(int fd, off_t l) { REAL(ftruncate); char b[PATH_MAX]; if (hit("truncate", fd_path(fd, b), NULL)) return -1; return real(fd, l); }
int ftruncate64(int fd, off64_t l) { REAL(ftruncate64); char b[PATH_MAX]; if (hit("truncate", fd_path(fd, b), NULL)) return -1; return real(fd, l); }
int fallocate(int fd, int mode, off_t o, off_t l) { REAL(fallocate); char b[PATH_MAX]; if (hit("truncate", fd_path(fd, b), NULL)) return -1; return real(fd, mode, o, l); }
int posix_fallocate(int fd, off_t o, off_t l) { REAL(posix_fallocate); char b[PATH_MAX]; if (hit("truncate", fd_path(fd, b), NULL)) return -1; return real(fd, o, l); }
int utimensat(int d, const char *p, const struct timespec t[2], int f) {
    REAL(utimensat); char b[PATH_MAX]; if (hit("utime", p ? at_path(d, p, b) : fd_path(d, b), NULL)) return -1; return real(d, p, t, f);
}
int futimens(int fd, const struct timespec t[2]) { REAL(futimens); char b[PATH_MAX]; if (hit("utime", fd_path(fd, b), NULL)) return -1; return real(fd, t); }
struct timeval; struct utimbuf;
int utimes(const char *p, const struct timeval t[2]) { static int (*real)(const char *, const struct timeval *) = NULL; if (!real) real = dlsym(RTLD_NEXT, "utimes"); char b[PATH_MAX]; if (hit("utime", at_path(AT_FDCWD, p, b), NULL)) return -1; return real(p, t); }
int link(const char *a, const char *b2) { REAL(link); char b[PATH_MAX], c[PATH_MAX]; if (hit("link", at_path(AT_FDCWD, b2, c), at_path(AT_FDCWD, a, b))) return -1; return real(a, b2); }
int linkat(int d1, const char *a, int d2, const char *b2, int f) { REAL(linkat); char b[PATH_MAX], c[PATH_MAX]; if (hit("link", at_path(d2, b2, c), at_path(d1, a, b))) return -1; return real(d1, a, d2, b2, f); }
int symlink(const char *t, const char *p) { REAL(symlink); char b[PATH_MAX]; if (hit("symlink", at_path(AT_FDCWD, p, b), NULL)) return -1; return real(t, p); }
int symlinkat(const char *t, int d, const char *p) { REAL(symlinkat); char b[PATH_MAX]; if (hit("symlink", at_path(d, p, b), NULL)) return -1; return real(t, d, p); }
int chmod(const char *p, mode_t m) { REAL(chmod); char b[PATH_MAX]; if (hit("chmod", at_path(AT_FDCWD, p, b), NULL)) return -1; return real(p, m); }
int fchmod(int fd, mode_t m) { REAL(fchmod); char b[PATH_MAX]; if (hit("chmod", fd_path(fd, b), NULL)) return -1; return real(fd, m); }
int fchmodat(int d, const char *p, mode_t m, int f) { REAL(fchmodat); char b[PATH_MAX]; if (hit("chmod", at_path(d, p, b), NULL)) return -1; return real(d, p, m, f); }
int setxattr(const char *p, const char *n, const void *v, size_t s, int f) { REAL(setxattr); char b[PATH_MAX]; if (hit("xattr", at_path(AT_FDCWD, p, b), NULL)) return -1; return real(p, n, v, s, f); }
int lsetxattr(const char *p, const char *n, const void *v, size_t s, int f) { REAL(lsetxattr); char b[PATH_MAX]; if (hit("xattr", at_path(AT_FDCWD, p, b), NULL)) return -1; return real(p, n, v, s, f); }
int fsetxattr(int fd, const char *n, const void *v, size_t s, int f) { REAL(fsetxattr); char b[PATH_MAX]; if (hit("xattr", fd_path(fd, b), NULL)) return -1; return real(fd, n, v, s, f); }
int removexattr(const char *p, const char *n) { REAL(removexattr); char b[PATH_MAX]; if (hit("xattr", at_path(AT_FDCWD, p, b), NULL)) return -1; return real(p, n); }
int lremovexattr(const char *p, const char *n) { REAL(lremovexattr); char b[PATH_MAX]; if (hit("xattr", at_path(AT_FDCWD, p, b), NULL)) return -1; return real(p, n); }
int fremovexattr(int fd, const char *n) { REAL(fremovexattr); char b[PATH_MAX]; if (hit("xattr", fd_path(fd, b), NULL)) return -1; return real(fd, n); }

ssize_t write(int fd, const void *buf, size_t n) { REAL(write); if (fd > 2 && fd != log_fd) { char b[PATH_MAX]; const char *p = fd_path(fd, b); if (under_root(p)) if (hit("write", p, NULL)) return -1; } ssize_t r = real(fd, buf, n); flip_written(fd, r); return r; }
ssize_t pwrite(int fd, const void *buf, size_t n, off_t o) { REAL(pwrite); char b[PATH_MAX]; if (hit("write", fd_path(fd, b), NULL)) return -1; return real(fd, buf, n, o); }
ssize_t pwrite64(int fd, const void *buf, size_t n, off64_t o) { REAL(pwrite64); char b[PATH_MAX]; if (hit("write", fd_path(fd, b), NULL)) return -1; return real(fd, buf, n, o); }
ssize_t writev(int fd, const struct iovec *v, int c) { REAL(writev); if (fd > 2) { char b[PATH_MAX]; const char *p = fd_path(fd, b); if (under_root(p)) if (hit("write", p, NULL)) return -1; } return real(fd, v, c); }
ssize_t copy_file_range(int fi, off64_t *oi, int fo, off64_t *oo, size_t n, unsigned int f) { REAL(copy_file_range); char b[PATH_MAX]; if (hit("write", fd_path(fo, b), NULL)) return -1; ssize_t r = real(fi, oi, fo, oo, n, f); if (!oo) flip_written(fo, r); return r; }
ssize_t sendfile(int fo, int fi, off_t *o, size_t n) { static ssize_t (*real)(int, int, off_t *, size_t) = NULL; if (!real) real = dlsym(RTLD_NEXT, "sendfile"); char b[PATH_MAX]; if (hit("write", fd_path(fo, b), NULL)) return -1; return real(fo, fi, o, n); }
ssize_t sendfile64(int fo, int fi, off64_t *o, size_t n) { static ssize_t (*real)(int, int, off64_t *, size_t) = NULL; if (!real) real = dlsym(RTLD_NEXT, "sendfile64"); char b[PATH_MAX]; if (hit("write", fd_path(fo, b), NULL)) return -1; return real(fo, fi, o, n); }
