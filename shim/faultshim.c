/* LD_PRELOAD fault shim: an open-for-writing of a path that contains $SY_FAULT_PATH fails with errno $SY_FAULT_ERRNO
   (default EIO) after sleeping $SY_FAULT_DELAY_MS milliseconds: "this file cannot be created, and finding that out takes a
   while" (a slow device, a network mount).  Used by the C13 check to let the FIRST copy of a hard-link group fail late. */
#define _GNU_SOURCE
#include <dlfcn.h>
#include <errno.h>
#include <fcntl.h>
#include <stdarg.h>
#include <stdlib.h>
#include <string.h>
#include <sys/types.h>
#include <time.h>

static void nap(const char *var) {
    const char *d = getenv(var);
    long ms = d ? atol(d) : 0;
    if (ms > 0) { struct timespec ts = { ms / 1000, (ms % 1000) * 1000000L }; nanosleep(&ts, NULL); }
}

static int faulty(const char *p, int flags) {
    if (!p || !(flags & (O_WRONLY | O_RDWR | O_CREAT | O_TRUNC))) return 0;
    /* $SY_SLOW_PATH: opening such a path for writing takes $SY_SLOW_DELAY_MS milliseconds and then succeeds */
    const char *slow = getenv("SY_SLOW_PATH");
    if (slow && *slow && strstr(p, slow)) nap("SY_SLOW_DELAY_MS");
    const char *needle = getenv("SY_FAULT_PATH");
    if (!needle || !*needle) return 0;
    if (!strstr(p, needle)) return 0;
    nap("SY_FAULT_DELAY_MS");
    const char *e = getenv("SY_FAULT_ERRNO");
    errno = e ? atoi(e) : EIO;
    return 1;
}

#define WRAP(name, proto, call)                                                         \
    int name proto {                                                                     \
        static int (*real)(const char *, int, ...) = NULL;                               \
        if (!real) real = dlsym(RTLD_NEXT, #name);                                       \
        mode_t m = 0;                                                                    \
        if (flags & (O_CREAT | O_TMPFILE)) { va_list ap; va_start(ap, flags); m = va_arg(ap, mode_t); va_end(ap); } \
        if (faulty(p, flags)) return -1;                                                 \
        return call;                                                                     \
    }
WRAP(open, (const char *p, int flags, ...), real(p, flags, m))
WRAP(open64, (const char *p, int flags, ...), real(p, flags, m))

#define WRAPAT(name)                                                                     \
    int name(int d, const char *p, int flags, ...) {                                     \
        static int (*real)(int, const char *, int, ...) = NULL;                          \
        if (!real) real = dlsym(RTLD_NEXT, #name);                                       \
        mode_t m = 0;                                                                    \
        if (flags & (O_CREAT | O_TMPFILE)) { va_list ap; va_start(ap, flags); m = va_arg(ap, mode_t); va_end(ap); } \
        if (faulty(p, flags)) return -1;                                                 \
        return real(d, p, flags, m);                                                     \
    }
WRAPAT(openat)
WRAPAT(openat64)
